#!/usr/bin/env python3
"""C19 — Send / Sync of graphs, streams and runs.

The property quantifies over caller *programs*.  This check generates programs
from a small grammar (API x stored function type x user-future style x use x
feature set), lets the compiler decide each of them, and isolates a failing
program as the replay file.  Negative controls (an `Rc` function type, an `Rc`
held across an await in the user future) must be *rejected*, which proves the
oracle can fail.  In the thorough tier the whole grammar is enumerated and the
thread-moving programs are also executed under a watchdog.

usage: run.py <quick|thorough>
exit 0 property held on every generated program, 1 violation, 2 no verdict
"""
import itertools
import json
import os
import shutil
import subprocess
import sys
import time

VERIF = os.path.dirname(os.path.dirname(os.path.abspath(__file__)))
WORK = os.path.join(VERIF, "c19", "work")
REPO = os.environ.get("FG_REPO", "/repo")
SEED = int(os.environ.get("VERIF_SEED", "1") or "1")

COMMON = r'''
#![allow(dead_code, unused_imports, unused_variables)]
pub use fn_graph::{DataAccessDyn, FnGraph, FnGraphBuilder, FnRef, StreamOpts, TypeIds};
pub use futures::future::{BoxFuture, FutureExt};
pub use futures::stream::StreamExt;
pub use std::future::Future;
pub use std::ops::ControlFlow;
pub use std::sync::atomic::{AtomicUsize, Ordering};
pub use std::sync::Arc;

pub fn assert_send<T: Send>(_: &T) {}
pub fn assert_sync<T: Sync>(_: &T) {}
pub fn assert_send_sync_type<T: Send + Sync>() {}
pub fn assert_send_type<T: Send>() {}
/// What a multi-threaded runtime's `spawn` demands.
pub fn require_send_static<T: Future + Send + 'static>(_: T) {}

pub trait Callable {
    fn call(&self) -> usize;
    fn make(id: usize, counter: Arc<AtomicUsize>) -> Self;
}

macro_rules! no_access {
    ($t:ty) => {
        impl DataAccessDyn for $t {
            fn borrows(&self) -> TypeIds { TypeIds::new() }
            fn borrow_muts(&self) -> TypeIds { TypeIds::new() }
        }
    };
}

/// Plain struct.
pub struct FPlain { pub id: usize, pub counter: Arc<AtomicUsize> }
impl Callable for FPlain {
    fn call(&self) -> usize { self.counter.fetch_add(1, Ordering::SeqCst); self.id }
    fn make(id: usize, counter: Arc<AtomicUsize>) -> Self { FPlain { id, counter } }
}
no_access!(FPlain);

/// `Box<dyn Fn + Send + Sync>`.
pub struct FBox(pub Box<dyn Fn() -> usize + Send + Sync>);
impl Callable for FBox {
    fn call(&self) -> usize { (self.0)() }
    fn make(id: usize, counter: Arc<AtomicUsize>) -> Self { FBox(Box::new(move || { counter.fetch_add(1, Ordering::SeqCst); id })) }
}
no_access!(FBox);

/// `Arc<dyn Fn + Send + Sync>`.
pub struct FArc(pub Arc<dyn Fn() -> usize + Send + Sync>);
impl Callable for FArc {
    fn call(&self) -> usize { (self.0)() }
    fn make(id: usize, counter: Arc<AtomicUsize>) -> Self { FArc(Arc::new(move || { counter.fetch_add(1, Ordering::SeqCst); id })) }
}
no_access!(FArc);

/// Function pointer plus data.
pub struct FPtr(pub fn(usize) -> usize, pub usize, pub Arc<AtomicUsize>);
fn ident(x: usize) -> usize { x }
impl Callable for FPtr {
    fn call(&self) -> usize { self.2.fetch_add(1, Ordering::SeqCst); (self.0)(self.1) }
    fn make(id: usize, counter: Arc<AtomicUsize>) -> Self { FPtr(ident, id, counter) }
}
no_access!(FPtr);

/// Borrows its data: Send + Sync but NOT 'static (the property quantifies over
/// every F: Send + Sync).
pub struct FBorrow<'a> { pub id: usize, pub counter: &'a AtomicUsize }
impl<'a> FBorrow<'a> {
    pub fn call(&self) -> usize { self.counter.fetch_add(1, Ordering::SeqCst); self.id }
}
impl<'a> DataAccessDyn for FBorrow<'a> {
    fn borrows(&self) -> TypeIds { TypeIds::new() }
    fn borrow_muts(&self) -> TypeIds { TypeIds::new() }
}
/// a, b -> c plus a free node d, over functions that borrow `counter`.
pub fn small_graph_borrow<'a>(counter: &'a AtomicUsize) -> FnGraph<FBorrow<'a>> {
    let mut b = FnGraphBuilder::new();
    let [a, bb, c, _d] = b.add_fns([
        FBorrow { id: 0, counter }, FBorrow { id: 1, counter }, FBorrow { id: 2, counter }, FBorrow { id: 3, counter },
    ]);
    b.add_logic_edge(a, c).unwrap();
    b.add_contains_edge(bb, c).unwrap();
    b.build()
}

/// `call` for every function type of the grammar (FBorrow is not `Callable`).
pub trait Callable2 { fn call2(&self) -> usize; }
impl Callable2 for FPlain { fn call2(&self) -> usize { Callable::call(self) } }
impl Callable2 for FBox { fn call2(&self) -> usize { Callable::call(self) } }
impl Callable2 for FArc { fn call2(&self) -> usize { Callable::call(self) } }
impl Callable2 for FPtr { fn call2(&self) -> usize { Callable::call(self) } }
impl<'a> Callable2 for FBorrow<'a> { fn call2(&self) -> usize { self.call() } }

/// An error type that is Send but NOT Sync (the property only asks for Send user futures).
#[derive(Debug)]
pub struct ErrNS(pub std::cell::Cell<u8>);

/// NOT Send / Sync: negative control.
pub struct FRc(pub std::rc::Rc<usize>);
impl Callable for FRc {
    fn call(&self) -> usize { *self.0 }
    fn make(id: usize, _counter: Arc<AtomicUsize>) -> Self { FRc(std::rc::Rc::new(id)) }
}
no_access!(FRc);

/// a, b -> c plus a free node d.
pub fn small_graph<F: Callable + DataAccessDyn>(counter: &Arc<AtomicUsize>) -> FnGraph<F> {
    let mut b = FnGraphBuilder::new();
    let [a, bb, c, _d] = b.add_fns([
        F::make(0, counter.clone()), F::make(1, counter.clone()), F::make(2, counter.clone()), F::make(3, counter.clone()),
    ]);
    b.add_logic_edge(a, c).unwrap();
    b.add_contains_edge(bb, c).unwrap();
    b.build()
}

/// Minimal park-based executor.
pub fn block_on<T>(fut: impl Future<Output = T>) -> T {
    use std::task::{Context, Poll, Wake, Waker};
    struct Th(std::thread::Thread);
    impl Wake for Th { fn wake(self: Arc<Self>) { self.0.unpark(); } }
    let waker = Waker::from(Arc::new(Th(std::thread::current())));
    let mut cx = Context::from_waker(&waker);
    let mut fut = std::pin::pin!(fut);
    loop {
        match fut.as_mut().poll(&mut cx) {
            Poll::Ready(v) => return v,
            Poll::Pending => std::thread::park_timeout(std::time::Duration::from_millis(200)),
        }
    }
}
'''

FTYPES = ["FPlain", "FBox", "FArc", "FPtr", "FBorrow"]


def fty(ftype, lt="'a"):
    """Type expression of a stored function type."""
    return "FBorrow<%s>" % lt if ftype == "FBorrow" else ftype


def generics(ftype):
    return "<'a>" if ftype == "FBorrow" else ""


def run_fn(ftype, mutable):
    if ftype == "FBorrow":
        return ("pub fn run() -> usize {\n    let counter = AtomicUsize::new(0);\n    {\n"
                "        let %sgraph = small_graph_borrow(&counter);\n        prog(&%sgraph);\n    }\n    counter.load(Ordering::SeqCst)\n}\n") % ("mut " if mutable else "", "mut " if mutable else "")
    return ("pub fn run() -> usize {\n    let counter = Arc::new(AtomicUsize::new(0));\n"
            "    let %sgraph = small_graph::<%s>(&counter);\n    prog(&%sgraph);\n    counter.load(Ordering::SeqCst)\n}\n") % ("mut " if mutable else "", ftype, "mut " if mutable else "")
FUTS = ["async", "boxed", "ready"]

# (name, mutable graph?, kind) kind in plain|try|control
CONC_APIS = [
    ("for_each_concurrent", False, "plain", False),
    ("for_each_concurrent_with", False, "plain", True),
    ("for_each_concurrent_mut", True, "plain", False),
    ("for_each_concurrent_mut_with", True, "plain", True),
    ("try_for_each_concurrent", False, "try", False),
    ("try_for_each_concurrent_with", False, "try", True),
    ("try_for_each_concurrent_control", False, "control", False),
    ("try_for_each_concurrent_control_with", False, "control", True),
    ("try_for_each_concurrent_mut", True, "try", False),
    ("try_for_each_concurrent_mut_with", True, "try", True),
    ("try_for_each_concurrent_control_mut", True, "control", False),
    ("try_for_each_concurrent_control_mut_with", True, "control", True),
]
STREAM_APIS = [("stream", False), ("stream_with", True)]
CONC_USES = ["assert_send", "scoped_thread", "spawn_static", "nested_send"]
STREAM_USES = ["assert_send", "fnref_to_thread", "scoped_thread", "held_across_await"]


ERRS = ["String", "ErrNS"]


def user_future(kind, fut, err="String"):
    """closure body given `f` (a reference to the function)."""
    val = {"plain": "()", "try": "Ok::<(), %s>(())" % err, "control": "ControlFlow::<%s, ()>::Continue(())" % err}[kind]
    if fut == "async":
        return "{ let v = f.call(); async move { let _ = v; futures::future::ready(()).await; %s } }" % val
    if fut == "async_borrow":
        # the usual way to write it: the user future borrows the function (non-mut APIs only)
        return "async move { let _ = f.call(); futures::future::ready(()).await; %s }" % val
    if fut == "map_ref":
        # a combinator future whose closure takes an argument that contains a lifetime
        # (non-mut APIs only: the reference to the function outlives the closure call)
        return "futures::future::ready(f).map(|g: &_| { let _ = Callable2::call2(g); %s })" % val
    if fut == "boxed":
        return "{ let v = f.call(); async move { let _ = v; futures::future::ready(()).await; %s }.boxed() }" % val
    return "{ let _ = f.call(); futures::future::ready(%s) }" % val


def conc_call(api, with_opts, kind, fut, g="g", err="String"):
    opts = "StreamOpts::new(), " if with_opts else ""
    return "%s.%s(None, %s|f| %s)" % (g, api, opts, user_future(kind, fut, err))


def gen_conc(api, mutable, kind, with_opts, ftype, fut, use, err="String"):
    def conc_call_e(api, with_opts, kind, fut, g="g"):
        return conc_call(api, with_opts, kind, fut, g=g, err=err)
    gty = "&mut FnGraph<%s>" % fty(ftype) if mutable else "&FnGraph<%s>" % fty(ftype)
    run = None
    if use == "assert_send":
        body = "    let fut = %s;\n    assert_send(&fut);\n    drop(fut);" % conc_call_e(api, with_opts, kind, fut)
    elif use == "scoped_thread":
        body = ("    let fut = %s;\n    // the run is created here and awaited on another thread\n"
                "    std::thread::scope(|s| { s.spawn(move || { let _ = block_on(fut); }); });") % conc_call_e(api, with_opts, kind, fut)
        run = run_fn(ftype, mutable)
    elif use == "nested_send":
        # the run is awaited inside an enclosing async block whose future must be Send
        # (the body of a task; no 'static needed here)
        body = ("    let fut = async move { let _ = %s.await; };\n    assert_send(&fut);\n    drop(fut);") % conc_call_e(api, with_opts, kind, fut)
    else:  # spawn_static: what tokio::spawn demands
        if mutable:
            inner = "let mut g = g; let _ = %s.await;" % conc_call_e(api, with_opts, kind, fut, g="g")
            body = ("    // a task that owns the graph and runs it\n"
                    "    let fut = async move { %s };\n    require_send_static(fut);") % inner
            gty = "FnGraph<%s>" % ftype
        else:
            inner = "let _ = %s.await;" % conc_call_e(api, with_opts, kind, fut, g="g")
            body = ("    let g: Arc<FnGraph<%s>> = Arc::new(g);\n"
                    "    let fut = async move { %s };\n    require_send_static(fut);") % (ftype, inner)
            gty = "FnGraph<%s>" % ftype
    src = "use crate::common::*;\n\npub fn prog%s(g: %s) {\n%s\n}\n" % (generics(ftype), gty, body)
    if run:
        src += "\n" + run
    return src, run is not None


def gen_stream(api, with_opts, ftype, use):
    call = "g.stream_with(StreamOpts::new().rev())" if with_opts else "g.stream()"
    run = None
    if use == "assert_send":
        body = "    let s = %s;\n    assert_send(&s);\n    drop(s);" % call
    elif use == "fnref_to_thread":
        body = ("    let (tx, rx) = std::sync::mpsc::channel::<FnRef<'_, %s>>();\n"
                "    std::thread::scope(|sc| {\n"
                "        sc.spawn(move || { for r in rx { let _ = r.call(); drop(r); } });\n"
                "        block_on(async {\n"
                "            let mut s = std::pin::pin!(%s);\n"
                "            while let Some(r) = s.next().await { tx.send(r).unwrap(); }\n"
                "            drop(tx);\n"
                "        });\n"
                "    });") % (fty(ftype), call)
        run = True
    elif use == "held_across_await":
        # a FnRef kept alive across an await inside a future that must be Send
        # (what a Send-bounded executor or a scoped worker thread demands)
        body = ("    let s = %s;\n"
                "    let fut = async move {\n"
                "        let mut s = std::pin::pin!(s);\n"
                "        while let Some(r) = s.next().await {\n"
                "            let _ = r.call();\n"
                "            std::future::ready(()).await;\n"
                "            drop(r);\n"
                "        }\n"
                "    };\n"
                "    assert_send(&fut);\n"
                "    std::thread::scope(|sc| { sc.spawn(move || { block_on(fut); }); });") % call
        run = True
    else:
        body = ("    let s = %s;\n"
                "    std::thread::scope(|sc| { sc.spawn(move || { block_on(async move {\n"
                "        let mut s = std::pin::pin!(s);\n"
                "        while let Some(r) = s.next().await { let _ = r.call(); }\n"
                "    }); }); });") % call
        run = True
    src = "use crate::common::*;\n\npub fn prog%s(g: &FnGraph<%s>) {\n%s\n}\n" % (generics(ftype), fty(ftype), body)
    if run:
        src += "\n" + run_fn(ftype, False)
    return src, bool(run)


def gen_basic(ftype):
    return ("use crate::common::*;\n\npub fn prog() {\n    assert_send_sync_type::<FnGraph<%s>>();\n"
            "    assert_send_type::<FnRef<'static, %s>>();\n}\n") % (fty(ftype, "'static"), fty(ftype, "'static")), False


def grammar(feature_set):
    """Yields (name, description dict, source, runnable)."""
    progs = []
    for ft in FTYPES:
        src, r = gen_basic(ft)
        progs.append(({"api": "FnGraph/FnRef auto traits", "ftype": ft, "fut": "-", "use": "assert"}, src, r))
    for (api, w), ft, use in itertools.product(STREAM_APIS, FTYPES, STREAM_USES):
        src, r = gen_stream(api, w, ft, use)
        progs.append(({"api": api, "ftype": ft, "fut": "-", "use": use}, src, r))
    if feature_set == "default":
        for (api, mutable, kind, w), ft, fut, use in itertools.product(CONC_APIS, FTYPES, FUTS + ["async_borrow", "map_ref"], CONC_USES):
            if fut in ("async_borrow", "map_ref") and mutable:
                continue  # `FnMut(&mut F) -> Fut`: the future cannot borrow the function
            if ft == "FBorrow" and use == "spawn_static":
                continue  # a task spawned on a runtime must be 'static: not a program of the domain
            for err in (ERRS if kind != "plain" else ["-"]):
                src, r = gen_conc(api, mutable, kind, w, ft, fut, use, err if err != "-" else "String")
                progs.append(({"api": api, "ftype": ft, "fut": fut, "use": use, "err": err}, src, r))
    return progs


def negatives():
    out = []
    out.append(({"control": "FnGraph<FRc> is Send+Sync"},
                "use crate::common::*;\npub fn prog() { assert_send_sync_type::<FnGraph<FRc>>(); }\n"))
    out.append(({"control": "FnRef<FRc> is Send"},
                "use crate::common::*;\npub fn prog() { assert_send_type::<FnRef<'static, FRc>>(); }\n"))
    out.append(({"control": "stream() over an Rc function type is Send"},
                "use crate::common::*;\npub fn prog(g: &FnGraph<FRc>) { let s = g.stream(); assert_send(&s); }\n"))
    out.append(({"control": "for_each_concurrent over an Rc function type is Send"},
                "use crate::common::*;\npub fn prog(g: &FnGraph<FRc>) { let f = g.for_each_concurrent(None, |f| { let _ = f.call(); async move {} }); assert_send(&f); }\n"))
    out.append(({"control": "user future holding an Rc across an await is Send"},
                "use crate::common::*;\npub fn prog(g: &FnGraph<FPlain>) { let f = g.for_each_concurrent(None, |f| { let rc = std::rc::Rc::new(f.call()); async move { futures::future::ready(()).await; drop(rc); } }); assert_send(&f); }\n"))
    out.append(({"control": "try_for_each_concurrent with an Rc error type is Send"},
                "use crate::common::*;\npub fn prog(g: &FnGraph<FPlain>) { let f = g.try_for_each_concurrent(None, |f| { let _ = f.call(); async move { Err::<(), std::rc::Rc<usize>>(std::rc::Rc::new(1)) } }); assert_send(&f); }\n"))
    return out


def write_crate(d, feature_set, modules, with_bin):
    if os.path.exists(os.path.join(d, "src")):
        shutil.rmtree(os.path.join(d, "src"))
    os.makedirs(os.path.join(d, "src"), exist_ok=True)
    feats = '["interruptible"]' if feature_set == "interruptible" else "[]"
    with open(os.path.join(d, "Cargo.toml"), "w") as f:
        f.write('[package]\nname = "c19progs"\nversion = "0.0.0"\nedition = "2021"\npublish = false\n\n'
                '[dependencies]\nfn_graph = { path = "%s", features = %s }\nfutures = "0.3"\n\n[workspace]\n' % (REPO, feats))
    lock_src = os.path.join(VERIF, "harness", "Cargo.lock")
    if not os.path.exists(os.path.join(d, "Cargo.lock")) and os.path.exists(lock_src):
        shutil.copy(lock_src, os.path.join(d, "Cargo.lock"))
    with open(os.path.join(d, "src", "common.rs"), "w") as f:
        f.write(COMMON.replace("#![allow(dead_code, unused_imports, unused_variables)]\n", ""))
    lib = "#![allow(dead_code, unused_imports, unused_variables)]\npub mod common;\n"
    for name, src in modules:
        with open(os.path.join(d, "src", name + ".rs"), "w") as f:
            f.write(src)
        lib += "pub mod %s;\n" % name
    with open(os.path.join(d, "src", "lib.rs"), "w") as f:
        f.write(lib)
    if with_bin:
        os.makedirs(os.path.join(d, "src", "bin"), exist_ok=True)
        main = ("fn main() {\n    let mut bad = 0;\n")
        for name in with_bin:
            main += ('    { let n = c19progs::%s::run(); if n != 4 { println!("RUNFAIL %s ran {} function calls, expected 4", n); bad += 1; } else { println!("RUNOK %s"); } }\n' % (name, name, name))
        main += "    std::process::exit(if bad > 0 { 1 } else { 0 });\n}\n"
        with open(os.path.join(d, "src", "bin", "runall.rs"), "w") as f:
            f.write(main)


def cargo(d, args, timeout=1800):
    env = dict(os.environ, CARGO_NET_OFFLINE="true", CARGO_TARGET_DIR=os.path.join(WORK, "target"))
    p = subprocess.run(["cargo"] + args + ["--offline"], cwd=d, env=env, capture_output=True, text=True, timeout=timeout)
    return p


def check_crate(d):
    """Returns (ok, {module: [messages]}, errors_elsewhere)."""
    p = cargo(d, ["check", "--lib", "--message-format=json"])
    per = {}
    elsewhere = []
    for line in p.stdout.splitlines():
        try:
            m = json.loads(line)
        except Exception:
            continue
        if m.get("reason") != "compiler-message":
            continue
        msg = m["message"]
        if msg.get("level") != "error":
            continue
        spans = [s for s in msg.get("spans", []) if s.get("is_primary")] or msg.get("spans", [])
        files = {s["file_name"] for s in spans}
        text = msg.get("rendered") or msg.get("message", "")
        hit = False
        for fn in files:
            base = os.path.basename(fn)
            if base.startswith(("p_", "neg_")) and fn.startswith("src"):
                per.setdefault(base[:-3], []).append(text)
                hit = True
        if not hit and (files or "aborting" not in msg.get("message", "")):
            if "aborting due to" in msg.get("message", "") or "could not compile" in msg.get("message", ""):
                continue
            elsewhere.append(text)
    return p.returncode == 0, per, elsewhere, p.stderr[-3000:]


def main():
    tier = sys.argv[1] if len(sys.argv) > 1 else "quick"
    t0 = time.time()
    os.makedirs(WORK, exist_ok=True)
    os.makedirs(os.path.join(VERIF, "evidence"), exist_ok=True)
    ev_path = os.path.join(VERIF, "evidence", "C19.json")
    if os.path.exists(ev_path):
        os.remove(ev_path)
    violations = []
    samples = []
    total = 0
    nontrivial = set()
    by_set = {}
    inconclusive = None
    executed = 0
    for fs in ["default", "interruptible"]:
        progs = grammar(fs)
        if tier == "quick":
            # one program per API (and the auto-trait programs); the remaining
            # dimensions are picked as a pure function of VERIF_SEED
            chosen = []
            seen = {}
            for i, (desc, src, r) in enumerate(progs):
                seen.setdefault(desc["api"], []).append((desc, src, r))
            for k, (api, lst) in enumerate(sorted(seen.items())):
                if api.startswith("FnGraph"):
                    chosen.extend(lst)
                else:
                    # one program per error type (if the API has one), plus one more
                    by_err = {}
                    for x in lst:
                        by_err.setdefault(x[0].get("err", "-"), []).append(x)
                    for j, (err, sub) in enumerate(sorted(by_err.items())):
                        chosen.append(sub[(SEED * 7 + k * 13 + j * 3) % len(sub)])
                    chosen.append(lst[(SEED * 11 + k * 5 + 1) % len(lst)])
                    # and one whose function type borrows (not 'static)
                    bor = [x for x in lst if x[0]["ftype"] == "FBorrow"]
                    if bor:
                        chosen.append(bor[(SEED * 5 + k * 3) % len(bor)])
                    # and (streams) one that keeps a FnRef alive across an await in a Send future, with a borrowing function type
                    held = [x for x in lst if x[0].get("use") == "held_across_await" and x[0]["ftype"] == "FBorrow"]
                    if held:
                        chosen.append(held[(SEED + k) % len(held)])
                    # and one that awaits the run inside a Send async block with a combinator future
                    nest = [x for x in lst if x[0].get("use") == "nested_send" and x[0].get("fut") == "map_ref"]
                    if nest:
                        chosen.append(nest[(SEED * 3 + k) % len(nest)])
            progs = chosen
        modules = []
        runnable = []
        descs = {}
        for i, (desc, src, r) in enumerate(progs):
            name = "p_%04d" % i
            header = "// C19 generated program: feature_set=%s %s\n" % (fs, json.dumps(desc))
            modules.append((name, header + src))
            descs[name] = desc
            if r:
                runnable.append(name)
        d = os.path.join(WORK, fs)
        os.makedirs(d, exist_ok=True)
        write_crate(d, fs, modules, runnable if tier == "thorough" else None)
        ok, per, elsewhere, stderr = check_crate(d)
        total += len(modules)
        by_set[fs] = {"programs": len(modules), "failing": len(per)}
        for name, desc in descs.items():
            if desc["use"] != "assert" or True:
                nontrivial.add((fs, json.dumps(desc, sort_keys=True)))
        for name in list(descs)[:3]:
            samples.append({"feature_set": fs, "program": descs[name], "source": dict(modules)[name]})
        if elsewhere and not per:
            inconclusive = "compile errors outside the generated programs (feature set %s): %s" % (fs, elsewhere[0][:1500])
            break
        if not ok and not per and not elsewhere:
            inconclusive = "cargo check failed without attributable errors: " + stderr
            break
        for name, msgs in sorted(per.items()):
            rp_dir = os.path.join(VERIF, "replays", "found")
            os.makedirs(rp_dir, exist_ok=True)
            rp = os.path.join(rp_dir, "C19-%s-%s.rs" % (fs, name))
            with open(rp, "w") as f:
                f.write(dict(modules)[name] + "\n/* compiler said:\n" + msgs[0][:3000] + "\n*/\n")
            violations.append((name, descs[name], msgs[0].splitlines()[0] if msgs else "", rp))
        # execute thread-moving programs
        if tier == "thorough" and not per and runnable:
            b = cargo(d, ["build", "--bin", "runall"])
            if b.returncode != 0:
                inconclusive = "runall does not build: " + b.stderr[-1500:]
                break
            exe = os.path.join(WORK, "target", "debug", "runall")
            try:
                r = subprocess.run([exe], capture_output=True, text=True, timeout=600)
                executed += r.stdout.count("RUNOK")
                for line in r.stdout.splitlines():
                    if line.startswith("RUNFAIL"):
                        name = line.split()[1]
                        rp_dir = os.path.join(VERIF, "replays", "found")
                        os.makedirs(rp_dir, exist_ok=True)
                        rp = os.path.join(rp_dir, "C19-%s-%s.rs" % (fs, name))
                        with open(rp, "w") as f:
                            f.write(dict(modules)[name] + "\n/* " + line + " */\n")
                        violations.append((name, descs[name], line, rp))
                if r.returncode not in (0, 1):
                    inconclusive = "runall crashed: rc=%s %s" % (r.returncode, r.stderr[-800:])
            except subprocess.TimeoutExpired:
                inconclusive = "watchdog: executing the thread-moving programs did not finish in 600 s"
    # negative controls (default features)
    neg_ok = None
    neg_info = []
    if inconclusive is None:
        negs = negatives()
        modules = [("neg_%02d" % i, "// negative control: %s\n%s" % (json.dumps(desc), src)) for i, (desc, src) in enumerate(negs)]
        d = os.path.join(WORK, "negative")
        os.makedirs(d, exist_ok=True)
        write_crate(d, "default", modules, None)
        ok, per, elsewhere, stderr = check_crate(d)
        neg_ok = True
        for (name, _), (desc, _src) in zip(modules, negs):
            rejected = name in per and any("Send" in m or "Sync" in m or "cannot be sent" in m or "cannot be shared" in m for m in per[name])
            neg_info.append({"control": desc["control"], "rejected_by_compiler": rejected})
            if not rejected:
                neg_ok = False
        if not neg_ok:
            inconclusive = "negative controls were not all rejected: %s" % json.dumps(neg_info)
    wall = time.time() - t0
    for name, desc, msg, rp in violations:
        print("violation: C19 program %s %s does not compile / run: %s" % (name, json.dumps(desc), msg[:300]))
        print("VIOLATION property=C19 replay=%s" % rp)
    evidence = {
        "property_id": "C19",
        "tier": tier,
        "seed": SEED,
        "level": "exploration",
        "coverage": {
            "evaluations": total,
            "distinct_nontrivial": len(nontrivial),
            "rule": "programs are generated from the grammar API x stored function type {plain struct, Box<dyn Fn+Send+Sync>, Arc<dyn Fn+Send+Sync>, fn pointer} x user future {async block, BoxFuture, future::ready} x error type {String, a Send-but-not-Sync type} x use {Send bound, value moved to a scoped thread and awaited there, Send+'static task as a runtime spawn demands, FnRefs sent over a channel to another thread} x feature set {default, interruptible}; every generated program is distinct and non-trivial (each asserts or exercises an auto trait of a library value instantiated with caller types); quick = one program per API and error type plus one more per API, per feature set, chosen by VERIF_SEED, thorough = the whole grammar",
            "samples": samples[:6],
            "exhaustive": tier == "thorough",
            "programs_by_feature_set": by_set,
            "negative_controls": neg_info,
            "programs_executed_on_threads": executed,
            "oracle": "rustc type checker via `cargo check --offline` (one crate per feature set, one module per program; errors are attributed to programs by file name)",
        },
        "assumptions": [
            "auto traits are structural, so the finite grammar of function types / future styles stands for every F: Send + Sync and every Send user future",
            "with the interruptible feature only FnGraph, FnRef, stream() and stream_with() are asserted (the property does not claim Send for the concurrent futures or stream_interruptible there)",
        ],
        "wall_s": wall,
        "violations": len(violations),
    }
    if inconclusive is None or violations:
        with open(ev_path, "w") as f:
            json.dump(evidence, f, indent=1)
    print("C19 %s: %d programs, %d violations, negatives rejected=%s, executed=%d, %.1fs" % (tier, total, len(violations), neg_ok, executed, wall))
    if violations:
        sys.exit(1)
    if inconclusive:
        print("INCONCLUSIVE: " + inconclusive)
        sys.exit(2)
    sys.exit(0)


if __name__ == "__main__":
    main()
