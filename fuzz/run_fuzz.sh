#!/bin/bash
# Coverage-guided tier (thorough only): libFuzzer campaign of fixed work for one
# property, oracles inside the target, crash artifacts turned into ordinary
# replay files.   usage: run_fuzz.sh <Cxx> <part.json>
# exit 0 nothing found / 1 VIOLATION / 2 no verdict (does not build, crashed otherwise)
set -u
prop=$1; part=$2
VERIF=$(cd "$(dirname "$0")/.." && pwd)
H="$VERIF/harness"
SEED="${VERIF_SEED:-1}"
RUNS="${FG_FUZZ_RUNS:-20000}"
JOBS="${FG_FUZZ_JOBS:-16}"
export CARGO_NET_OFFLINE=true
export FG_VERIF_DIR="$VERIF"
case "$prop" in
  C01|C02|C03|C04|C05|C06|C07|C08|C09|C10) target=run;;
  C11|C12|C13|C14|C16|C17) target=builder;;
  *) exit 0;;   # no fuzz tier for this property
esac
configs="plain intr"
[ "$target" = builder ] && configs="plain"
[ "$prop" = C08 ] && configs="intr"
rc=0; total=0; nontriv=0; cov=0; corpus=0; engines=""
t0=$(date +%s)
for cfg in $configs; do
  tdir="$H/fuzz/target-$cfg"
  feat=""; [ "$cfg" = intr ] && feat="--features intr"
  ( cd "$H" && cargo +nightly fuzz build -s none $feat --target-dir "$tdir" $target >"$tdir.build.log" 2>&1 ) || { echo "BUILD-FAILED: fuzz target ($cfg); see $tdir.build.log"; exit 2; }
  bin="$tdir/x86_64-unknown-linux-gnu/release/$target"
  work="$H/fuzz/work/$prop-$cfg"; rm -rf "$work"; mkdir -p "$work/corpus" "$work/artifacts" "$work/logs"
  fg="$H/target/release/fgcheck"; [ "$cfg" = intr ] && fg="$H/target/intr/release/fgcheck"
  VERIF_SEED=$SEED "$fg" fuzz-seeds $target $prop "$work/corpus" 24 || exit 2
  ( cd "$work/logs" && FG_PROP=$prop FG_FUZZ_STATS="$work/stats" "$bin" "$work/corpus" \
      -artifact_prefix="$work/artifacts/" -seed=$SEED -runs=$RUNS -len_control=0 -max_len=2400 \
      -jobs=$JOBS -workers=$JOBS -detect_leaks=0 -print_final_stats=1 -timeout=60 >"$work/driver.log" 2>&1 )
  execs=$(grep -h "stat::number_of_executed_units" "$work"/logs/fuzz-*.log 2>/dev/null | awk '{s+=$2} END {print s+0}')
  c=$(grep -h " cov: " "$work"/logs/fuzz-*.log 2>/dev/null | sed -E 's/.* cov: ([0-9]+).*/\1/' | sort -n | tail -1)
  nt=$(cat "$work"/stats.* 2>/dev/null | sed -E 's/.*"distinct_nontrivial":([0-9]+).*/\1/' | sort -n | tail -1)
  total=$((total + execs)); nontriv=$((nontriv + ${nt:-0})); cov=${c:-0}
  corpus=$((corpus + $(ls "$work/corpus" | wc -l)))
  engines="$engines{\"engine\":\"libFuzzer (cargo-fuzz, no sanitizer, in-target oracles, FG_PROP=$prop)\",\"target\":\"$target\",\"build\":\"$cfg\",\"jobs\":$JOBS,\"runs_per_job\":$RUNS,\"executions\":$execs,\"edge_coverage\":${c:-0},\"seed\":$SEED},"
  shopt -s nullglob
  # many jobs usually hit the same root cause: turn the three smallest artifacts into replays
  for a in $(ls -S -r "$work"/artifacts/ 2>/dev/null | head -3); do
    a="$work/artifacts/$a"
    "$fg" fuzz-replay $target $prop "$a"; r=$?
    if [ $r -eq 1 ]; then rc=1; elif [ $r -ne 0 ] && [ $rc -eq 0 ]; then rc=2; fi
  done
done
wall=$(( $(date +%s) - t0 ))
viol=0; [ $rc -eq 1 ] && viol=1
level=exploration; case "$prop" in C07|C08) level=fault_enumeration;; esac
cat > "$part" <<JSON
{"property_id":"$prop","tier":"thorough","seed":$SEED,"level":"$level","wall_s":$wall,"violations":$viol,
 "assumptions":["libFuzzer campaigns are pinned only approximately by -seed/-runs; a saved failing input is the reproducible unit"],
 "coverage":{"build":"libfuzzer","evaluations":$total,"executions_of_code_under_test":$total,
  "distinct_nontrivial":$nontriv,"distinct_nontrivial_random_tier":$nontriv,"distinct_nontrivial_exhaustive_tier":0,
  "rule":"","samples":[],"labels":{"corpus_files":$corpus},"engines":[${engines%,}],"exhaustive_subspaces":[],
  "notes":["libFuzzer tier: distinct_nontrivial is the maximum over the parallel jobs of the per-process count (a lower bound of the union), by the same rule as the proptest tier"],
  "other_property_hits":{},"known_finding_hits":{}}}
JSON
echo "$prop fuzz: $total executions, >= $nontriv distinct non-trivial, edge coverage $cov, exit $rc"
exit $rc
