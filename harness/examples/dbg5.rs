use fgverif::builder::*;
use std::time::Instant;
fn main() {
    for (d, spec) in big_build_specs(false, 1) {
        let t = Instant::now();
        let b = build_recorded(&spec).unwrap();
        let t1 = t.elapsed();
        let f = BuildFacts::new(&spec, &b.g);
        let t2 = t.elapsed();
        let v = check_c11(&spec, &b, &f);
        let t3 = t.elapsed();
        let v13 = check_c13(&b, &f);
        let t4 = t.elapsed();
        println!("{d}: build {:?} facts {:?} c11 {:?} c13 {:?} viol {} {}", t1, t2 - t1, t3 - t2, t4 - t3, v.len(), v13.len());
    }
}
