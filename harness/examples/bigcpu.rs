// CPU time of build() on the big-build instances (margin below the build watchdog's cap).
use fgverif::builder::{big_build_specs, build_recorded};
use fgverif::c18::thread_cpu_s;
fn main() {
    for (desc, spec) in big_build_specs(true, 1) {
        let t0 = thread_cpu_s();
        let r = build_recorded(&spec);
        println!("{:6.2} s  ok={}  {}", thread_cpu_s() - t0, r.is_ok(), desc);
    }
}
