use fgverif::cases::SingleCase;
use fgverif::explore::{Act, GRef, Runner, Stepper};
use fgverif::model::build_graph;
fn main() {
    let path = std::env::args().nth(1).unwrap();
    let v: serde_json::Value = serde_json::from_str(&std::fs::read_to_string(path).unwrap()).unwrap();
    let case: SingleCase = serde_json::from_value(v["decoded"]["case"].clone()).unwrap();
    let mut g = build_graph(&case.spec);
    let mut r = Runner::new(GRef::Mut(&mut g), &case.cfg);
    for a in &case.acts {
        let before = r.trace().len();
        let ok = r.apply(*a);
        let t = r.trace();
        println!("{a:?} ok={ok} new_events={} wants_poll={} done={}", t.len() - before, r.wants_poll(), r.done());
        let starts = t[before..].iter().filter(|e| matches!(e, fgverif::explore::Ev::Start(_))).count();
        println!("   starts in this step: {starts}");
        let _ = Act::Poll;
    }
}
