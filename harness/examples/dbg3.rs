// does the budget apply and are deferred wakes flushed?
use fgverif::explore::{in_task_poll, CountWaker};
use std::sync::atomic::{AtomicUsize, Ordering};
use std::sync::Arc;
use std::task::{Context, Poll, Waker};
fn main() {
    let (tx, mut rx) = tokio::sync::mpsc::channel::<usize>(400);
    for i in 0..400 { tx.try_send(i).unwrap(); }
    let cw = Arc::new(CountWaker(AtomicUsize::new(0)));
    let waker = Waker::from(cw.clone());
    let mut cx = Context::from_waker(&waker);
    let got = in_task_poll(|| { let mut k = 0; loop { match rx.poll_recv(&mut cx) { Poll::Ready(Some(_)) => k += 1, _ => break } } println!("inside window: received {k}, wakes so far {}", cw.0.load(Ordering::SeqCst)); k });
    println!("after window: received {got}, wakes {}", cw.0.load(Ordering::SeqCst));
    let mut k = 0; loop { match rx.poll_recv(&mut cx) { Poll::Ready(Some(_)) => k += 1, _ => break } }
    println!("outside runtime: received {k} more");
}
