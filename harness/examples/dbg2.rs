use futures::{stream, StreamExt, FutureExt};
use std::cell::Cell;
use std::future::Future;
use std::pin::Pin;
use std::rc::Rc;
use std::task::{Context, Poll};
struct Y(u8);
impl Future for Y { type Output=(); fn poll(mut self: Pin<&mut Self>, cx:&mut Context<'_>)->Poll<()> { if self.0>0 { self.0-=1; cx.waker().wake_by_ref(); Poll::Pending } else { Poll::Ready(()) } } }
fn main() {
    let n = 65usize;
    let (tx, mut rx) = tokio::sync::mpsc::channel::<usize>(n);
    for i in 0..n { tx.try_send(i).unwrap(); }
    let pend = Rc::new(Cell::new(0usize));
    let p2 = pend.clone();
    let starts = Rc::new(Cell::new(0usize));
    let s2 = starts.clone();
    let st = stream::poll_fn(move |cx| { let r = rx.poll_recv(cx); if r.is_pending() { p2.set(p2.get()+1); } r });
    let mut fut = Box::pin(st.for_each_concurrent(None, move |i| { s2.set(s2.get()+1); Y((i%3) as u8) }));
    let w = futures::task::noop_waker();
    let mut cx = Context::from_waker(&w);
    for k in 0..5 {
        let r = fut.as_mut().poll(&mut cx);
        println!("poll {k}: ready={} starts={} stream_pendings={}", r.is_ready(), starts.get(), pend.get());
    }
    drop(tx);
    let _ = fut.now_or_never();
}
