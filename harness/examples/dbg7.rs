use proptest::prelude::*;
use proptest::collection::vec as pvec;
use proptest::test_runner::{Config, RngSeed, TestRunner};
use proptest::strategy::ValueTree;
fn main() {
    let mut runner = TestRunner::new(Config { rng_seed: RngSeed::Fixed(1), failure_persistence: None, ..Config::default() });
    let s = pvec(any::<u16>(), 0..=40usize);
    let (mut n, mut tot, mut zero, mut empty) = (0, 0, 0, 0);
    let mut hist = [0u32; 8];
    for _ in 0..20000 {
        let t = s.new_tree(&mut runner).unwrap().current();
        tot += 1;
        match t.last() { None => empty += 1, Some(v) => { if *v % 32 == 0 { n += 1 } if *v == 0 { zero += 1 } hist[(*v >> 13) as usize] += 1; } }
    }
    println!("{n} of {tot}, zero {zero}, empty {empty}, hist {hist:?}");
}
