use fgverif::builder::*;
fn main() {
    let r = build_histories("C13", 1);
    println!("instances {} builds {} viol {:?}", r.instances, r.builds, r.violation.as_ref().map(|v| (&v.0.kind, &v.0.msg[..v.0.msg.len().min(200)], v.2)));
    for s in &r.samples { println!("{s}"); }
}
