// hand-made C20 case: two stream runs on a fan-out graph, run 1 polled inside run 0's poll
use fgverif::explore::Act;
use fgverif::gen::{Api, RunCfg, Shape, Strat};
use fgverif::model::{GraphSpec, Kind, TestFn};
use fgverif::multi::{eval_multi, MultiCase};
fn main() {
    let n = 11;
    let fns: Vec<TestFn> = (0..n).map(|id| TestFn { id, reads: vec![], writes: vec![] }).collect();
    let edges: Vec<(usize, usize, Kind)> = (1..n).map(|v| (0, v, Kind::Logic)).collect();
    let spec = GraphSpec { fns, edges, batches: vec![] };
    let cfg = RunCfg {
        api: Api { shape: Shape::Stream, with: false }, rev: false, limit: None, strat: Strat::NonInterruptible,
        include: true, failing: vec![], yields: vec![0; n], abort_after: None, instant: vec![], coop: false,
        drop_sender: false, pre_interrupted: 0, on_clone: false, unwind: vec![], rev_again: 0, opts_order: 0,
    };
    let schedule = vec![
        (0, Act::Poll), (1, Act::Poll), (0, Act::Complete(0)), (1, Act::Complete(0)), (0, Act::PollNesting(1, 1)),
    ];
    let case = MultiCase { spec, cfgs: vec![cfg.clone(), cfg], schedule, one_task: false, coop: false };
    let (ev, applied) = eval_multi(&case, true);
    println!("applied {:?}", &applied[..applied.len().min(12)]);
    for v in &ev.violations { println!("VIOL {} {} {}", v.prop, v.kind, &v.msg[..v.msg.len().min(300)]); }
    println!("rets {:?}", ev.rets);
}
