//! Choice tapes: a case is decoded from a few `Vec<u16>` tapes.  `below(k)`
//! maps a tape value monotonically, an exhausted tape yields 0 and 0 always
//! means "simplest", so that proptest's shrinking (delete elements, shrink
//! values towards 0) yields smaller graphs and shorter schedules.  The same
//! decoder serves libFuzzer (tapes cut from the fuzzer's byte string).

#[derive(Clone, Debug)]
pub struct Tape<'a> {
    data: &'a [u16],
    pos: usize,
    /// Pseudo-random continuation after the end of the tape (0 = off).
    tail: u64,
}

impl<'a> Tape<'a> {
    pub fn new(data: &'a [u16]) -> Self {
        Tape { data, pos: 0, tail: 0 }
    }
    /// From now on an exhausted tape continues with a pseudo-random sequence that
    /// is a pure function of the tape's contents, instead of zeros.  Used by the
    /// decoders of *large* cases (hundreds of functions), which need far more
    /// choices than a tape holds; small cases keep the all-zero tail, which is what
    /// makes truncation a simplification.
    pub fn enable_tail(&mut self) {
        let mut h: u64 = 0xcbf2_9ce4_8422_2325;
        for v in self.data {
            h ^= *v as u64;
            h = h.wrapping_mul(0x0000_0100_0000_01b3);
        }
        self.tail = h | 1;
    }
    #[inline]
    pub fn next(&mut self) -> u16 {
        let v = match self.data.get(self.pos) {
            Some(v) => *v,
            None if self.tail != 0 => {
                let mut x = self.tail;
                x ^= x << 13;
                x ^= x >> 7;
                x ^= x << 17;
                self.tail = x;
                (x >> 40) as u16
            }
            None => 0,
        };
        self.pos += 1;
        v
    }
    /// Monotone map of the next tape value into `0..k` (0 if `k == 0`).
    #[inline]
    pub fn below(&mut self, k: usize) -> usize {
        let v = self.next() as usize;
        if k == 0 {
            0
        } else {
            (v * k) >> 16
        }
    }
    /// True with probability `num/den`; *false* for a zero / exhausted tape.
    #[inline]
    pub fn chance(&mut self, num: usize, den: usize) -> bool {
        // high values -> true, so that 0 is "no".
        let v = self.below(den);
        v >= den - num.min(den)
    }
    pub fn exhausted(&self) -> bool {
        self.pos >= self.data.len()
    }
    pub fn consumed(&self) -> usize {
        self.pos.min(self.data.len())
    }
}

/// Cut a byte string (libFuzzer input) into `k` tapes: the first `k-1` two-byte
/// words give relative split points, the rest is distributed.
pub fn tapes_from_bytes(bytes: &[u8], k: usize) -> Vec<Vec<u16>> {
    let words: Vec<u16> = bytes
        .chunks(2)
        .map(|c| u16::from_le_bytes([c[0], *c.get(1).unwrap_or(&0)]))
        .collect();
    if words.len() < k {
        let mut out = vec![Vec::new(); k];
        if !words.is_empty() {
            out[0] = words;
        }
        return out;
    }
    let (head, body) = words.split_at(k - 1);
    // split points as fractions of the body
    let mut cuts: Vec<usize> = head
        .iter()
        .map(|h| (*h as usize * (body.len() + 1)) >> 16)
        .collect();
    cuts.sort();
    let mut out = Vec::with_capacity(k);
    let mut prev = 0;
    for c in cuts {
        out.push(body[prev..c].to_vec());
        prev = c;
    }
    out.push(body[prev..].to_vec());
    out
}

/// Inverse of `tapes_from_bytes` (for seed corpora).
pub fn tapes_to_bytes(tapes: &[Vec<u16>]) -> Vec<u8> {
    let k = tapes.len();
    let body_len: usize = tapes.iter().map(|t| t.len()).sum();
    let mut words: Vec<u16> = Vec::with_capacity(k - 1 + body_len);
    let mut cum = 0usize;
    for t in &tapes[..k - 1] {
        cum += t.len();
        // smallest h with (h * (body_len + 1)) >> 16 == cum
        let h = (cum * 65536).div_ceil(body_len + 1);
        words.push(h.min(65535) as u16);
    }
    for t in tapes {
        words.extend_from_slice(t);
    }
    let mut out = Vec::with_capacity(words.len() * 2);
    for w in words {
        out.extend_from_slice(&w.to_le_bytes());
    }
    out
}

#[cfg(test)]
mod tests {
    use super::*;
    #[test]
    fn roundtrip() {
        let tapes = vec![vec![1u16, 2, 3], vec![], vec![9u16; 17], vec![5]];
        for k in 1..=4 {
            let t = tapes[..k].to_vec();
            let total: usize = t.iter().map(|x| x.len()).sum();
            if total < k { continue; }
            assert_eq!(tapes_from_bytes(&tapes_to_bytes(&t), k), t);
        }
    }
}
