//! fgcheck: command line entry of the verification harness.
//!
//!   fgcheck run <Cxx> <quick|thorough> <part.json>   run the generated search for one property
//!   fgcheck replay <Cxx> <file.json>                 replay one stored case
//!   fgcheck merge <Cxx> <tier> <out.json> <part.json>...   merge parts into an evidence file
//!
//! Exit codes: 0 held on everything explored, 1 violation (a line
//! `VIOLATION property=<id> replay=<path>` is printed), 2 not a verdict.

use std::collections::BTreeMap;
use std::time::Instant;

use fgverif::builder::{self, BuildCase, BuildCheck};
#[cfg(feature = "async_apis")]
use fgverif::cases::SingleCase;
use fgverif::driver::{search, stats_json, Check, Failure, Stats};
use fgverif::findings::Findings;
#[cfg(feature = "async_apis")]
use fgverif::multi::{self, HistoryCase, HistoryCheck, MultiCase, MultiCheck};
use fgverif::seq::{self, SeqCase, SeqCheck};
#[cfg(feature = "async_apis")]
use fgverif::single::{self, SingleCheck};
use fgverif::violation::{hash_of, Violation, ASYNC, INTR};
use fgverif::{c18, model};
use serde_json::{json, Value};

fn verif_dir() -> String {
    std::env::var("FG_VERIF_DIR").unwrap_or_else(|_| "/verif".into())
}

fn seed() -> u64 {
    std::env::var("VERIF_SEED")
        .ok()
        .and_then(|s| s.trim().parse::<u64>().ok())
        .unwrap_or(1)
}

fn build_name() -> &'static str {
    if !cfg!(debug_assertions) {
        return "noassert";
    }
    if !ASYNC {
        "sync"
    } else if INTR {
        "intr"
    } else {
        "plain"
    }
}

const SINGLE: [&str; 10] = [
    "C01", "C02", "C03", "C04", "C05", "C06", "C07", "C08", "C09", "C10",
];
const BUILDER: [&str; 6] = ["C11", "C12", "C13", "C14", "C17", "C18"];

fn leak(s: &str) -> &'static str {
    Box::leak(s.to_string().into_boxed_str())
}

fn level_of(prop: &str) -> &'static str {
    match prop {
        "C07" | "C08" => "fault_enumeration",
        _ => "exploration",
    }
}

fn write_replay(prop: &str, f: &Failure) -> String {
    let dir = format!("{}/replays/found", verif_dir());
    let _ = std::fs::create_dir_all(&dir);
    let body = json!({
        "property": prop,
        "check": f.check,
        "build": build_name(),
        "violation": f.violation,
        "decoded": f.decoded,
        "tapes": f.tapes,
        "seed": seed(),
    });
    let h = hash_of(&serde_json::to_string(&f.decoded).unwrap_or_default());
    let path = format!("{dir}/{prop}-{}-{:016x}.json", build_name(), h);
    std::fs::write(&path, serde_json::to_string_pretty(&body).unwrap()).expect("write replay");
    path
}

struct Part {
    stats: Stats,
    rule: String,
    engines: Vec<Value>,
    exhaustive: Vec<Value>,
    exhaustive_all: bool,
    extra_samples: Vec<Value>,
    violations: Vec<(Violation, String)>,
    notes: Vec<String>,
    assumptions: Vec<String>,
}

impl Part {
    fn new(rule: &str) -> Self {
        Part {
            stats: Stats::default(),
            rule: rule.to_string(),
            engines: vec![],
            exhaustive: vec![],
            exhaustive_all: false,
            extra_samples: vec![],
            violations: vec![],
            notes: vec![],
            assumptions: vec![],
        }
    }
    fn add_search(&mut self, prop: &str, check: &dyn Check, cases: u64, workers: u64, known: &Findings) {
        if !self.violations.is_empty() {
            return;
        }
        let s = seed();
        let kf = |v: &Violation, d: &Value| known.classify(prop, v, d);
        let t = Instant::now();
        let res = search(check, prop, cases, workers, s, &kf);
        self.engines.push(json!({
            "engine": "proptest TestRunner (tapes of u16, shrinking on)",
            "check": check.name(),
            "cases_requested": cases,
            "cases_run": res.stats.evaluations,
            "workers": workers,
            "rng_seed": s,
            "wall_s": t.elapsed().as_secs_f64(),
        }));
        self.stats.merge(res.stats);
        if let Some(f) = res.failure {
            let path = write_replay(prop, &f);
            self.violations.push((f.violation.clone(), path));
        }
    }
}

impl Part {
    /// Size ladder (DESIGN 2.8a): every exact number of functions in `lo..=hi`,
    /// `reps` pseudo-random cases of the property's own generator each.
    fn add_ladder(&mut self, prop: &str, lo: usize, hi: usize, reps: u64, workers: u64, known: &Findings, make: &(dyn Fn(usize) -> Box<dyn Check> + Sync)) {
        if !self.violations.is_empty() || std::env::var("FG_NO_LADDER").is_ok() {
            return;
        }
        let sizes: Vec<usize> = (lo..=hi).collect();
        let kf = |v: &Violation, d: &Value| known.classify(prop, v, d);
        let t = Instant::now();
        let l = fgverif::driver::size_ladder(prop, &sizes, reps, seed(), workers as usize, make, &kf);
        self.engines.push(json!({
            "engine": "size ladder: every exact number of functions in the range, pseudo-random cases of the property's own generator (graph shape, declarations, options, schedule) per size; tapes are a pure function of (seed, size, repetition)",
            "sizes": format!("{}..={}", l.sizes.0, l.sizes.1),
            "cases_per_size": reps,
            "cases_run": l.stats.evaluations,
            "rng_seed": seed(),
            "wall_s": t.elapsed().as_secs_f64(),
        }));
        self.stats.merge(l.stats);
        if let Some(f) = l.failure {
            let path = write_replay(prop, &f);
            self.violations.push((f.violation.clone(), path));
        }
    }
}

fn known_lines(prop: &str, known: &Findings) -> bool {
    // For every open finding: replay the stored reproducer and report it.
    let mut ok = true;
    for f in known.open_for(prop) {
        let mut still = true;
        if let Some(rp) = &f.reproducer {
            let path = format!("{}/{}", verif_dir(), rp);
            match replay_file(prop, &path) {
                Ok(v) => still = v.iter().any(|x| x.prop == prop),
                Err(e) => {
                    eprintln!("cannot replay reproducer {path}: {e}");
                    ok = false;
                }
            }
        }
        if still {
            println!("KNOWN-FINDING: property={} {}", prop, f.what);
        } else {
            println!("note: known finding {} no longer reproduces ({})", f.id, f.what);
        }
    }
    ok
}

fn replay_file(prop: &str, path: &str) -> Result<Vec<Violation>, String> {
    let s = std::fs::read_to_string(path).map_err(|e| e.to_string())?;
    let v: Value = serde_json::from_str(&s).map_err(|e| e.to_string())?;
    let dec = v.get("decoded").ok_or("no decoded case")?;
    let kind = dec.get("kind").and_then(|k| k.as_str()).unwrap_or("");
    let case = dec.get("case").cloned().unwrap_or(Value::Null);
    let out = match kind {
        #[cfg(feature = "async_apis")]
        "single" => {
            let c: SingleCase = serde_json::from_value(case).map_err(|e| e.to_string())?;
            if !INTR && (c.cfg.strat != fgverif::gen::Strat::NonInterruptible || c.cfg.api.shape == fgverif::gen::Shape::StreamIntr) {
                return Err("case needs the intr build".into());
            }
            single::replay_single(&c, prop).1
        }
        "build" => {
            let c: BuildCase = serde_json::from_value(case).map_err(|e| e.to_string())?;
            if prop == "C18" {
                // staged: never run an instance that a smaller failing one already decides
            }
            builder::eval_build_case(prop, &c).violations
        }
        "iter-work" => {
            let c: BuildCase = serde_json::from_value(case).map_err(|e| e.to_string())?;
            builder::eval_iter_work(&c.spec)
        }
        "build-history" => {
            let c: BuildCase = serde_json::from_value(case).map_err(|e| e.to_string())?;
            let k = dec.get("other_builds").and_then(|k| k.as_u64()).unwrap_or(0);
            builder::eval_build_history(prop, &c, k).0.into_iter().collect()
        }
        "seq" => {
            let c: SeqCase = serde_json::from_value(case).map_err(|e| e.to_string())?;
            seq::eval_seq(&c).violations
        }
        #[cfg(feature = "async_apis")]
        "history" => {
            let c: HistoryCase = serde_json::from_value(case).map_err(|e| e.to_string())?;
            multi::eval_history(&c).violations
        }
        #[cfg(feature = "async_apis")]
        "overlap-history" => {
            let spec: model::GraphSpec = serde_json::from_value(dec.get("spec").cloned().ok_or("no spec")?).map_err(|e| e.to_string())?;
            let a_cfg: fgverif::gen::RunCfg = serde_json::from_value(dec.get("a_cfg").cloned().ok_or("no a_cfg")?).map_err(|e| e.to_string())?;
            let k = dec.get("other_runs").and_then(|k| k.as_u64()).unwrap_or(0);
            multi::eval_overlap(&spec, &a_cfg, k).0
        }
        #[cfg(feature = "async_apis")]
        "multi" => {
            let c: MultiCase = serde_json::from_value(case).map_err(|e| e.to_string())?;
            multi::eval_multi(&c, true).0.violations
        }
        other => return Err(format!("unknown case kind {other:?}")),
    };
    Ok(out)
}

fn cmd_replay(prop: &str, path: &str) -> i32 {
    let known = Findings::load(&verif_dir());
    match replay_file(prop, path) {
        Err(e) => {
            println!("replay {path}: not replayable here: {e}");
            0
        }
        Ok(v) => {
            let s = std::fs::read_to_string(path).unwrap_or_default();
            let file: Value = serde_json::from_str(&s).unwrap_or(Value::Null);
            let dec = file.get("decoded").cloned().unwrap_or(Value::Null);
            let mut bad = false;
            for x in v.iter().filter(|x| x.prop == prop) {
                if let Some(k) = known.classify(prop, x, &dec) {
                    println!("replay {path}: matches open known finding {k}");
                    continue;
                }
                println!("replay {path}: {} {}: {}", x.prop, x.kind, x.msg);
                bad = true;
            }
            if bad {
                println!("VIOLATION property={prop} replay={path}");
                1
            } else {
                println!("replay {path}: property {prop} holds");
                0
            }
        }
    }
}

fn cases_for(prop: &str, thorough: bool) -> u64 {
    let q = |a: u64, b: u64| if thorough { b } else { a };
    match prop {
        "C15" | "C20" => q(300_000, 2_000_000),
        "C16" => q(400_000, 4_000_000),
        "C17" => q(200_000, 2_000_000),
        p if BUILDER.contains(&p) => q(300_000, 3_000_000),
        _ => q(300_000, 4_000_000),
    }
}

fn run_prop(prop: &'static str, thorough: bool) -> Part {
    let known = Findings::load(&verif_dir());
    let workers: u64 = std::env::var("FG_WORKERS").ok().and_then(|s| s.parse().ok()).unwrap_or(if thorough { 16 } else { 8 });
    let div: u64 = std::env::var("FG_CASES_DIV").ok().and_then(|s| s.parse().ok()).unwrap_or(1).max(1);
    let cases = std::env::var("FG_CASES").ok().and_then(|s| s.parse().ok()).unwrap_or_else(|| cases_for(prop, thorough) / div);
    #[cfg(not(feature = "async_apis"))]
    if SINGLE.contains(&prop) || prop == "C15" || prop == "C20" {
        eprintln!("{prop} needs fn_graph's async feature: not decided by the sync build");
        std::process::exit(2);
    }
    #[cfg(feature = "async_apis")]
    if SINGLE.contains(&prop) {
        let mut part = Part::new(single::rule_for(prop));
        // exhaustive small-scope tier: every schedule of every option combination on tiny graphs
        {
            let max_n: usize = std::env::var("FG_EXHAUST_N").ok().and_then(|s| s.parse().ok()).unwrap_or(if thorough { 3 } else { 2 });
            let t = Instant::now();
            let budget_s: u64 = std::env::var("FG_EXHAUST_BUDGET_S").ok().and_then(|s| s.parse().ok()).unwrap_or(if thorough { 2400 } else { 150 });
            let ex = fgverif::exhaust::exhaustive_schedules(prop, max_n, 1, workers as usize, budget_s);
            if !ex.complete && ex.violation.is_none() {
                println!("note: {prop}: the exhaustive small-scope tier was stopped before it was complete (budget {budget_s} s or depth bound); no verdict from that tier");
            }
            part.exhaustive.push(json!({"description": ex.description, "configurations": ex.configs, "runs": ex.runs, "nontrivial": ex.nontrivial, "complete": ex.complete, "deepest_schedule": ex.max_depth, "wall_s": t.elapsed().as_secs_f64()}));
            part.stats.evaluations += ex.runs;
            part.stats.executions += ex.runs;
            part.extra_samples.extend(ex.samples);
            if let Some((v, dec)) = ex.violation {
                let f = Failure { check: format!("exhaustive-schedules:{prop}"), violation: v.clone(), tapes: vec![], decoded: dec };
                let p = write_replay(prop, &f);
                part.violations.push((v, p));
            }
        }
        if matches!(prop, "C02" | "C03" | "C04" | "C05" | "C09") && part.violations.is_empty() {
            let t = Instant::now();
            let big = single::big_runs(prop, seed());
            part.stats.evaluations += big.runs;
            part.stats.executions += big.runs;
            for h in &big.hashes {
                part.stats.nontrivial.insert(*h);
            }
            part.engines.push(json!({"engine": "big runs: chain / fan-out / fan-in / ternary tree of more than 1024 functions, six API x order x limit combinations each, pseudo-random schedule", "runs": big.runs, "max_n": big.max_n, "samples": big.samples, "wall_s": t.elapsed().as_secs_f64()}));
            if let Some((v, case)) = big.violation {
                let f = Failure { check: format!("big-runs:{prop}"), violation: v.clone(), tapes: vec![], decoded: json!({"kind": "single", "intr_build": INTR, "case": case}) };
                let p = write_replay(prop, &f);
                part.violations.push((v, p));
            }
        }
        if matches!(prop, "C03" | "C05" | "C06") && part.violations.is_empty() {
            let t = Instant::now();
            let sw = single::drop_sweep(prop);
            part.stats.evaluations += sw.runs;
            part.stats.executions += sw.runs;
            for h in &sw.hashes {
                part.stats.nontrivial.insert(*h);
            }
            part.engines.push(json!({"engine": "drop-count sweep (streams): join with 130 / 260 predecessors, forward and reverse, every number k = 1..F of FnRefs dropped between two polls once", "runs": sw.runs, "wall_s": t.elapsed().as_secs_f64()}));
            if let Some((v, case)) = sw.violation {
                let f = Failure { check: format!("drop-sweep:{prop}"), violation: v.clone(), tapes: vec![], decoded: json!({"kind": "single", "intr_build": INTR, "case": case}) };
                let p = write_replay(prop, &f);
                part.violations.push((v, p));
            }
        }
        if matches!(prop, "C03" | "C04" | "C10") && part.violations.is_empty() {
            let t = Instant::now();
            let sw = single::limit_sweep(prop);
            part.stats.evaluations += sw.runs;
            part.stats.executions += sw.runs;
            for h in &sw.hashes {
                part.stats.nontrivial.insert(*h);
            }
            part.engines.push(json!({"engine": "limit sweep: two brooms (hub with 3/5/9 successors beside a chain of 2..5 ending in 5/8/14 successors), limits 2..4, six limit-taking APIs, forward and mirrored-reverse; the hub is completed after the chain and after j = 0.. chain-end successors, so functions of far-apart generations wait for a slot together", "runs": sw.runs, "samples": sw.samples, "wall_s": t.elapsed().as_secs_f64()}));
            if let Some((v, case)) = sw.violation {
                let f = Failure { check: format!("limit-sweep:{prop}"), violation: v.clone(), tapes: vec![], decoded: json!({"kind": "single", "intr_build": INTR, "case": case}) };
                let p = write_replay(prop, &f);
                part.violations.push((v, p));
            }
        }
        {
            let (hi, reps) = if thorough { (600, 30) } else { (330, 6) };
            part.add_ladder(prop, 41, hi, reps, workers, &known, &|n| {
                let mut c = SingleCheck::new(prop, thorough);
                c.profile.force_n = Some(n);
                Box::new(c)
            });
        }
        let check = SingleCheck::new(prop, thorough);
        part.add_search(prop, &check, cases, workers, &known);
        if prop == "C05" && !INTR {
            // supplementary real-thread tier: FnRefs dropped on other threads
            let tc = fgverif::threads::ThreadStreamCheck::new();
            let n = std::env::var("FG_THREAD_CASES").ok().and_then(|s| s.parse().ok()).unwrap_or(if thorough { 60_000 } else { 6_000 });
            part.add_search(prop, &tc, n, workers.min(8), &known);
            part.notes.push(fgverif::threads::THREAD_STREAM_RULE.into());
        }
        part.assumptions = vec![
            "schedules are explored at poll granularity: each poll of the library runs atomically (single-threaded controlled executor)".into(),
            "user futures are gates released by the explorer; wake-ups are observed through the harness's own waker".into(),
            "conflict relation and dependency closure are computed by the harness from the generated spec, the built graph's edges are read from the public field FnGraph::graph".into(),
            format!("this part was produced by the {} build of the harness (fn_graph {} the interruptible feature)", build_name(), if INTR { "with" } else { "without" }),
        ];
        return part;
    }
    match prop {
        #[cfg(feature = "async_apis")]
        "C15" => {
            let mut part = Part::new(multi::HISTORY_RULE);
            {
                let (hi, reps) = if thorough { (330, 12) } else { (270, 4) };
                part.add_ladder(prop, 25, hi, reps, workers, &known, &|n| {
                    let mut c = HistoryCheck::new(thorough);
                    c.profile.force_n = Some(n);
                    Box::new(c)
                });
            }
            let check = HistoryCheck::new(thorough);
            part.add_search(prop, &check, cases, workers, &known);
            part.assumptions = vec!["differential oracle: the last run of a history is replayed action by action on a freshly built graph; equality of Start/End/Quiet traces and returned values".into()];
            part
        }
        #[cfg(feature = "async_apis")]
        "C20" => {
            let mut part = Part::new(multi::MULTI_RULE);
            {
                let t = Instant::now();
                let oh = multi::overlap_histories(seed());
                part.stats.evaluations += oh.instances;
                part.stats.executions += oh.runs;
                for h in &oh.hashes {
                    part.stats.nontrivial.insert(*h);
                }
                part.engines.push(json!({"engine": "long overlaps: K = 255, 256, 65535, 65536 other runs started and finished on the same graph while run A (stream / for_each_concurrent / fold_async) is in progress; A compared with the same run alone", "instances": oh.instances, "runs": oh.runs, "samples": oh.samples, "wall_s": t.elapsed().as_secs_f64()}));
                if let Some((v, dec)) = oh.violation {
                    let f = Failure { check: "overlap-histories:C20".into(), violation: v.clone(), tapes: vec![], decoded: dec };
                    let p = write_replay(prop, &f);
                    part.violations.push((v, p));
                }
            }
            {
                let (hi, reps) = if thorough { (330, 12) } else { (270, 4) };
                part.add_ladder(prop, 25, hi, reps, workers, &known, &|n| {
                    let mut c = MultiCheck::new(thorough);
                    c.profile.force_n = Some(n);
                    Box::new(c)
                });
            }
            let check = MultiCheck::new(thorough);
            part.add_search(prop, &check, cases, workers, &known);
            if !INTR {
                let tc = fgverif::threads::ThreadMultiCheck::new();
                let n = std::env::var("FG_THREAD_CASES").ok().and_then(|s| s.parse().ok()).unwrap_or(if thorough { 60_000 } else { 6_000 });
                part.add_search(prop, &tc, n, workers.min(8), &known);
                part.notes.push(fgverif::threads::THREAD_MULTI_RULE.into());
            }
            part.assumptions = vec!["interleavings are at poll granularity in one OS thread; each run has its own waker (separate tasks) or all runs are polled together (one task); a supplementary tier runs two controlled runs on two OS threads".into()];
            part
        }
        "C16" => {
            let mut part = Part::new(seq::SEQ_RULE);
            let (f, c) = if thorough { (3, 4) } else { (3, 3) };
            let t = Instant::now();
            let ex = seq::exhaustive_seq(f, c, workers as usize);
            part.exhaustive.push(json!({"description": ex.description, "sequences": ex.sequences, "nontrivial": ex.nontrivial, "complete": ex.violation.is_none(), "wall_s": t.elapsed().as_secs_f64()}));
            part.stats.evaluations += ex.sequences;
            part.stats.executions += ex.sequences;
            part.extra_samples.extend(ex.samples);
            part.notes.push(format!("exhaustive sub-space: {} ({} non-trivial, counted separately from distinct_nontrivial of the random tier)", ex.description, ex.nontrivial));
            if let Some((v, case)) = ex.violation {
                let f = Failure { check: "seq-exhaustive:C16".into(), violation: v.clone(), tapes: vec![], decoded: json!({"kind":"seq","case":case}) };
                let p = write_replay(prop, &f);
                part.violations.push((v, p));
            }
            let check = SeqCheck { max_fns: if thorough { 12 } else { 10 }, max_ops: if thorough { 40 } else { 28 } };
            part.add_search(prop, &check, cases, workers, &known);
            part.assumptions = vec!["only FnIds returned by the same builder are used (foreign ids panic in petgraph by contract)".into()];
            part
        }
        p if BUILDER.contains(&p) => {
            let mut part = Part::new(builder::build_rule(prop));
            // staged gate: is the rank computation polynomial on a small probe?
            let probe_ok = c18::probe_polynomial();
            let cap = if probe_ok { None } else { Some(100_000u64) };
            if !probe_ok && prop != "C18" {
                part.notes.push("rank computation exceeded its bound on the probe (complete DAG, n = 16): random graphs are capped at 1e5 root paths so that this check terminates".into());
            }
            if prop == "C18" {
                let t = Instant::now();
                let fam = c18::families(thorough, seed());
                part.stats.evaluations += fam.instances;
                part.stats.executions += fam.instances;
                part.extra_samples.extend(fam.samples.clone());
                for h in &fam.nontrivial_hashes {
                    part.stats.nontrivial.insert(*h);
                }
                part.engines.push(json!({"engine": "generated graph families (complete / layered-complete / dense random DAGs, random insertion order), increasing size, stop at first violation", "instances": fam.instances, "max_n": fam.max_n, "max_root_paths": fam.max_paths.to_string(), "max_build_cpu_s": fam.max_build_cpu_s, "build_cpu_budget_s": c18::BUILD_CPU_BUDGET_S, "wall_s": t.elapsed().as_secs_f64()}));
                if let Some((v, case)) = fam.violation {
                    let f = Failure { check: "families:C18".into(), violation: v.clone(), tapes: vec![], decoded: builder::build_decoded(&case) };
                    let p = write_replay(prop, &f);
                    part.violations.push((v, p));
                }
            } else {
                // exhaustive sub-spaces
                let (n_acc, n_dag) = match (prop, thorough) {
                    ("C13", false) => (3, 4),
                    ("C13", true) => (3, 5),
                    (_, false) => (3, 0),
                    (_, true) => (4, 0),
                };
                let t = Instant::now();
                let ex = builder::exhaustive(prop, n_acc, true, workers as usize);
                part.exhaustive.push(json!({"description": ex.description, "builds": ex.builds, "nontrivial": ex.nontrivial, "complete": ex.violation.is_none(), "wall_s": t.elapsed().as_secs_f64()}));
                part.stats.evaluations += ex.builds;
                part.stats.executions += ex.builds;
                part.extra_samples.extend(ex.samples);
                if let Some((v, case)) = ex.violation {
                    let f = Failure { check: format!("build-exhaustive:{prop}"), violation: v.clone(), tapes: vec![], decoded: builder::build_decoded(&case) };
                    let p = write_replay(prop, &f);
                    part.violations.push((v, p));
                }
                if n_dag > 0 && part.violations.is_empty() {
                    let t = Instant::now();
                    let ex = builder::exhaustive(prop, n_dag, false, workers as usize);
                    part.exhaustive.push(json!({"description": ex.description, "builds": ex.builds, "nontrivial": ex.nontrivial, "complete": ex.violation.is_none(), "wall_s": t.elapsed().as_secs_f64()}));
                    part.stats.evaluations += ex.builds;
                    part.stats.executions += ex.builds;
                    part.extra_samples.extend(ex.samples);
                    if let Some((v, case)) = ex.violation {
                        let f = Failure { check: format!("build-exhaustive:{prop}"), violation: v.clone(), tapes: vec![], decoded: builder::build_decoded(&case) };
                        let p = write_replay(prop, &f);
                        part.violations.push((v, p));
                    }
                }
            }
            if prop == "C17" {
                let t = Instant::now();
                let iw = builder::graph_info_iter_work();
                part.stats.evaluations += iw.instances;
                part.stats.executions += iw.instances;
                for h in &iw.hashes {
                    part.stats.nontrivial.insert(*h);
                }
                part.engines.push(json!({"engine": "iteration work: GraphInfo::iter / iter_rev on ladders and complete DAGs (up to 2^38 paths), ascending, thread CPU time against a budget", "instances": iw.instances, "max_cpu_s": iw.max_cpu_s, "cpu_budget_s": builder::ITER_CPU_BUDGET_S, "wall_s": t.elapsed().as_secs_f64()}));
                if let Some((v, case)) = iw.violation {
                    let f = Failure { check: "iter-work:C17".into(), violation: v.clone(), tapes: vec![], decoded: json!({"kind": "iter-work", "case": case}) };
                    let p = write_replay(prop, &f);
                    part.violations.push((v, p));
                }
            }
            if (prop == "C11" || prop == "C13") && part.violations.is_empty() {
                let t = Instant::now();
                let big = builder::big_builds(prop, thorough, seed());
                part.stats.evaluations += big.instances;
                part.stats.executions += big.instances;
                for h in &big.hashes {
                    part.stats.nontrivial.insert(*h);
                }
                part.extra_samples.extend(big.samples.iter().take(2).cloned());
                part.engines.push(json!({"engine": "big builds: instances on which one build() performs more than 2^16 (thorough: 2^17) pair look-ups, most conflicting pairs joined directly by a user edge (bipartite writer x reader graphs, windowed clusters)", "instances": big.instances, "max_n": big.max_n, "max_conflicting_pairs": big.max_conflicting_pairs, "all_instances": big.samples, "wall_s": t.elapsed().as_secs_f64()}));
                if let Some((v, case)) = big.violation {
                    let f = Failure { check: format!("big-builds:{prop}"), violation: v.clone(), tapes: vec![], decoded: builder::build_decoded(&case) };
                    let p = write_replay(prop, &f);
                    part.violations.push((v, p));
                }
            }
            if (prop == "C11" || prop == "C13") && part.violations.is_empty() {
                let t = Instant::now();
                let bh = builder::build_histories(prop, seed());
                part.stats.evaluations += bh.instances;
                part.stats.executions += bh.builds;
                for h in &bh.hashes {
                    part.stats.nontrivial.insert(*h);
                }
                part.engines.push(json!({"engine": "build histories: a graph is built, K tiny graphs are built on the same thread (K around 2^8 and 2^16), the first graph is built again and judged", "instances": bh.instances, "builds": bh.builds, "all_instances": bh.samples, "wall_s": t.elapsed().as_secs_f64()}));
                if let Some((v, case, k)) = bh.violation {
                    let f = Failure { check: format!("build-histories:{prop}"), violation: v.clone(), tapes: vec![], decoded: json!({"kind": "build-history", "case": case, "other_builds": k}) };
                    let p = write_replay(prop, &f);
                    part.violations.push((v, p));
                }
            }
            if prop != "C18" {
                let (hi, reps) = if thorough { (700, 20) } else { (340, 6) };
                part.add_ladder(prop, 33, hi, reps, workers, &known, &|n| {
                    let mut c = BuildCheck::new(prop, thorough, cap);
                    c.force_n = Some(n);
                    Box::new(c)
                });
            }
            let check = BuildCheck::new(prop, thorough, cap);
            if !(prop == "C17" && !part.violations.is_empty()) {
                // (with an exponential GraphInfo walk the random tier would not terminate)
                part.add_search(prop, &check, cases, workers, &known);
            }
            part.assumptions = vec![
                "graphs are built through the public builder API only; the built graph is read from the public field FnGraph::graph and ranks()".into(),
                "reference algorithms (conflict relation, cycle model, longest-path ranks, span-ordered augmentation) are the harness's own".into(),
            ];
            if prop == "C18" {
                part.assumptions.push("work is observed through the verif_hooks visit counter of RankCalc and through the number of data-access queries on the harness's function type".into());
                part.assumptions.push(format!("hook-free complement: thread CPU time of build() on the family instances, budget {} s per build (instances sorted by explosiveness, walk stops at the first one over budget); this is the only place where time is an oracle, it is CPU time, and the margin to the repaired tree is >= 100x", c18::BUILD_CPU_BUDGET_S));
            }
            part
        }
        other => {
            eprintln!("unknown property {other}");
            std::process::exit(2);
        }
    }
}

fn cmd_run(prop: &'static str, tier: &str, out: &str) -> i32 {
    let thorough = tier == "thorough";
    let t = Instant::now();
    // watchdog: a budget hit is inconclusive, never a violation
    let limit_s: u64 = std::env::var("FG_WATCHDOG_S").ok().and_then(|s| s.parse().ok()).unwrap_or(if thorough { 7200 } else { 900 });
    std::thread::spawn(move || {
        std::thread::sleep(std::time::Duration::from_secs(limit_s));
        println!("INCONCLUSIVE: watchdog of {limit_s}s hit");
        std::process::exit(2);
    });
    let known = Findings::load(&verif_dir());
    let known_ok = known_lines(prop, &known);
    let part = run_prop(prop, thorough);
    let mut samples = part.stats.samples.clone();
    samples.extend(part.extra_samples.iter().cloned());
    samples.truncate(10);
    let exhaustive_nontrivial: u64 = part.exhaustive.iter().map(|e| e.get("nontrivial").and_then(|x| x.as_u64()).unwrap_or(0)).sum();
    let mut cov = stats_json(&part.stats);
    let m = cov.as_object_mut().unwrap();
    // exhaustive sub-spaces enumerate each case once, so their non-trivial cases are distinct by construction
    let dn = part.stats.nontrivial.len() as u64 + exhaustive_nontrivial;
    m.insert("distinct_nontrivial".into(), json!(dn));
    m.insert("distinct_nontrivial_random_tier".into(), json!(part.stats.nontrivial.len()));
    m.insert("distinct_nontrivial_exhaustive_tier".into(), json!(exhaustive_nontrivial));
    m.insert("rule".into(), json!(part.rule));
    m.insert("samples".into(), json!(samples));
    m.insert("engines".into(), json!(part.engines));
    m.insert("exhaustive_subspaces".into(), json!(part.exhaustive));
    m.insert("exhaustive".into(), json!(false));
    m.insert("notes".into(), json!(part.notes));
    m.insert("build".into(), json!(build_name()));
    let body = json!({
        "property_id": prop,
        "tier": tier,
        "seed": seed(),
        "level": level_of(prop),
        "coverage": cov,
        "assumptions": part.assumptions,
        "wall_s": t.elapsed().as_secs_f64(),
        "violations": part.violations.len(),
    });
    std::fs::write(out, serde_json::to_string_pretty(&body).unwrap()).expect("write part");
    println!(
        "{prop} {tier} [{}]: {} cases, {} distinct non-trivial, {} violation(s), {:.1}s",
        build_name(),
        part.stats.evaluations,
        dn,
        part.violations.len(),
        t.elapsed().as_secs_f64()
    );
    if !part.stats.known.is_empty() {
        println!("known-finding hits (suppressed): {:?}", part.stats.known);
    }
    for (v, path) in &part.violations {
        println!("violation: {} {}: {}", v.prop, v.kind, v.msg.chars().take(600).collect::<String>());
        println!("VIOLATION property={prop} replay={path}");
    }
    if !part.violations.is_empty() {
        1
    } else if !known_ok {
        2
    } else {
        0
    }
}

fn cmd_merge(prop: &str, tier: &str, out: &str, parts: &[String]) -> i32 {
    let mut evaluations = 0u64;
    let mut executions = 0u64;
    let mut dn = 0u64;
    let mut dn_r = 0u64;
    let mut dn_e = 0u64;
    let mut samples: Vec<Value> = vec![];
    let mut labels: BTreeMap<String, BTreeMap<String, u64>> = BTreeMap::new();
    let mut engines = vec![];
    let mut exhaustive = vec![];
    let mut notes: Vec<Value> = vec![];
    let mut assumptions: Vec<String> = vec![];
    let mut other: BTreeMap<String, u64> = BTreeMap::new();
    let mut known: BTreeMap<String, u64> = BTreeMap::new();
    let mut wall = 0.0;
    let mut violations = 0i64;
    let mut rule = String::new();
    let mut seed = 0i64;
    let mut level = "exploration".to_string();
    let mut builds = vec![];
    let mut extra: BTreeMap<String, Value> = BTreeMap::new();
    for p in parts {
        let Ok(s) = std::fs::read_to_string(p) else {
            eprintln!("missing part {p}");
            return 2;
        };
        let v: Value = serde_json::from_str(&s).unwrap();
        let c = &v["coverage"];
        evaluations += c["evaluations"].as_u64().unwrap_or(0);
        executions += c["executions_of_code_under_test"].as_u64().unwrap_or(0);
        dn += c["distinct_nontrivial"].as_u64().unwrap_or(0);
        dn_r += c["distinct_nontrivial_random_tier"].as_u64().unwrap_or(0);
        dn_e += c["distinct_nontrivial_exhaustive_tier"].as_u64().unwrap_or(0);
        let b = c["build"].as_str().unwrap_or("-").to_string();
        if let Some(a) = c["samples"].as_array() {
            for x in a.iter().take(6) {
                samples.push(x.clone());
            }
        }
        if let Some(o) = c["labels"].as_object() {
            let e = labels.entry(b.clone()).or_default();
            for (k, x) in o {
                *e.entry(k.clone()).or_insert(0) += x.as_u64().unwrap_or(0);
            }
        }
        for x in c["engines"].as_array().cloned().unwrap_or_default() {
            let mut x = x;
            x["build"] = json!(b);
            engines.push(x);
        }
        for x in c["exhaustive_subspaces"].as_array().cloned().unwrap_or_default() {
            exhaustive.push(x);
        }
        for x in c["notes"].as_array().cloned().unwrap_or_default() {
            notes.push(x);
        }
        for x in v["assumptions"].as_array().cloned().unwrap_or_default() {
            let x = x.as_str().unwrap_or("").to_string();
            if !assumptions.contains(&x) {
                assumptions.push(x);
            }
        }
        for (k, x) in c["other_property_hits"].as_object().cloned().unwrap_or_default() {
            *other.entry(k).or_insert(0) += x.as_u64().unwrap_or(0);
        }
        for (k, x) in c["known_finding_hits"].as_object().cloned().unwrap_or_default() {
            *known.entry(k).or_insert(0) += x.as_u64().unwrap_or(0);
        }
        if let Some(o) = c.as_object() {
            for (k, x) in o {
                if k.starts_with("x_") {
                    extra.insert(k.clone(), x.clone());
                }
            }
        }
        wall += v["wall_s"].as_f64().unwrap_or(0.0);
        violations += v["violations"].as_i64().unwrap_or(0);
        rule = c["rule"].as_str().unwrap_or("").to_string();
        seed = v["seed"].as_i64().unwrap_or(0);
        // the level is a property of the check, not of a part (the libFuzzer part does
        // not know it)
        let _ = &v["level"];
        level = level_of(prop).to_string();
        builds.push(b);
    }
    let mut cov = json!({
        "evaluations": evaluations,
        "executions_of_code_under_test": executions,
        "distinct_nontrivial": dn,
        "distinct_nontrivial_random_tier": dn_r,
        "distinct_nontrivial_exhaustive_tier": dn_e,
        "rule": format!("{rule}; cases of the two harness builds (fn_graph with / without the interruptible feature) are different cases and are added"),
        "samples": samples,
        "labels_by_build": labels,
        "engines": engines,
        "exhaustive_subspaces": exhaustive,
        "exhaustive": false,
        "notes": notes,
        "builds": builds,
        "other_property_hits": other,
        "known_finding_hits": known,
    });
    for (k, x) in extra {
        cov[k] = x;
    }
    let body = json!({
        "property_id": prop,
        "tier": tier,
        "seed": seed,
        "level": level,
        "coverage": cov,
        "assumptions": assumptions,
        "wall_s": wall,
        "violations": violations,
    });
    if let Some(dir) = std::path::Path::new(out).parent() {
        let _ = std::fs::create_dir_all(dir);
    }
    std::fs::write(out, serde_json::to_string_pretty(&body).unwrap()).expect("write evidence");
    0
}

#[cfg(feature = "async_apis")]
fn cmd_fuzz_seeds(target: &str, prop: &'static str, dir: &str, n: usize) -> i32 {
    use proptest::prelude::RngCore;
    use proptest::test_runner::{RngAlgorithm, TestRng};
    let (check, _k) = fgverif::fuzzing::check_for(target, prop);
    let lens = check.tape_lens();
    let mut sb = [0u8; 32];
    sb[..8].copy_from_slice(&seed().to_le_bytes());
    let mut rng = TestRng::from_seed(RngAlgorithm::ChaCha, &sb);
    let _ = std::fs::create_dir_all(dir);
    // the empty input plus n random valid tape sets of growing length
    let _ = std::fs::write(format!("{dir}/seed-empty"), []);
    for i in 0..n {
        let tapes: Vec<Vec<u16>> = lens
            .iter()
            .map(|l| {
                let len = (rng.next_u64() as usize % (l + 1)) * (i + 1) / n.max(1);
                (0..len).map(|_| rng.next_u32() as u16).collect()
            })
            .collect();
        let bytes = fgverif::tape::tapes_to_bytes(&tapes);
        let _ = std::fs::write(format!("{dir}/seed-{i:03}"), bytes);
    }
    0
}

#[cfg(feature = "async_apis")]
fn cmd_fuzz_replay(target: &str, prop: &'static str, artifact: &str) -> i32 {
    let Ok(data) = std::fs::read(artifact) else {
        eprintln!("cannot read {artifact}");
        return 2;
    };
    let known = Findings::load(&verif_dir());
    let (check, k) = fgverif::fuzzing::check_for(target, prop);
    let tapes = fgverif::tape::tapes_from_bytes(&data, k);
    let kf = |v: &Violation, d: &Value| known.classify(prop, v, d);
    let tapes = fgverif::driver::shrink_tapes(check.as_ref(), prop, tapes, &kf, 4000);
    let rep = check.run_case(&tapes, true);
    let dec = rep.decoded.clone().unwrap_or(Value::Null);
    for v in rep.violations.iter().filter(|v| v.prop == prop) {
        if known.classify(prop, v, &dec).is_some() {
            continue;
        }
        let f = Failure {
            check: format!("libfuzzer:{target}:{prop}"),
            violation: v.clone(),
            tapes: tapes.clone(),
            decoded: dec.clone(),
        };
        let path = write_replay(prop, &f);
        println!("violation: {} {}: {}", v.prop, v.kind, v.msg.chars().take(600).collect::<String>());
        println!("VIOLATION property={prop} replay={path}");
        return 1;
    }
    println!("artifact {artifact}: no violation of {prop} in the {} build", build_name());
    0
}

/// A `build()` of the code under test that does not come back: for C18 (whose oracle
/// is the work `build()` does) that is the violation itself - reported with the spec
/// being built as the replay; for every other property the check cannot reach a
/// verdict (exit 2), it is never reported as a violation of that property.
fn start_build_watchdog(prop: &'static str) {
    fgverif::watch::start(move |spec, cpu| {
        let n = spec.n();
        if prop == "C18" {
            let v = Violation {
                prop: "C18".into(),
                kind: "build-cpu-time-exceeds-budget".into(),
                msg: format!(
                    "build() of {n} functions has used {cpu:.1} s of CPU and has not returned (budget {} s per build; the largest generated instance needs milliseconds on a polynomial tree)",
                    c18::BUILD_CPU_BUDGET_S
                ),
            };
            let case = BuildCase { spec: spec.clone(), fail_pos: 0, mutation: None, labels: vec![], walks: vec![] };
            let f = Failure { check: "build-watchdog:C18".into(), violation: v.clone(), tapes: vec![], decoded: builder::build_decoded(&case) };
            let path = write_replay(prop, &f);
            println!("violation: {} {}: {}", v.prop, v.kind, v.msg);
            println!("VIOLATION property={prop} replay={path}");
            std::process::exit(1);
        }
        println!("INCONCLUSIVE: {prop}: a build() of {n} functions has used {cpu:.1} s of CPU and has not returned; this check cannot reach a verdict (the work of build() is property C18)");
        std::process::exit(2);
    });
}

fn main() {
    // panics of the code under test are caught and reported by the engines
    std::panic::set_hook(Box::new(|_| {}));
    let _ = model::access_calls();
    let args: Vec<String> = std::env::args().collect();
    if matches!(args.get(1).map(|s| s.as_str()), Some("run") | Some("replay")) && args.len() >= 3 {
        start_build_watchdog(leak(&args[2]));
    }
    let code = match args.get(1).map(|s| s.as_str()) {
        Some("run") if args.len() >= 5 => cmd_run(leak(&args[2]), &args[3], &args[4]),
        Some("replay") if args.len() >= 4 => cmd_replay(&args[2], &args[3]),
        Some("merge") if args.len() >= 6 => cmd_merge(&args[2], &args[3], &args[4], &args[5..]),
        #[cfg(feature = "async_apis")]
        Some("fuzz-seeds") if args.len() >= 6 => cmd_fuzz_seeds(&args[2], leak(&args[3]), &args[4], args[5].parse().unwrap_or(16)),
        #[cfg(feature = "async_apis")]
        Some("fuzz-replay") if args.len() >= 5 => cmd_fuzz_replay(&args[2], leak(&args[3]), &args[4]),
        _ => {
            eprintln!("usage: fgcheck run <Cxx> <quick|thorough> <part.json> | replay <Cxx> <file> | merge <Cxx> <tier> <out> <parts..>");
            2
        }
    };
    std::process::exit(code);
}
