//! Supplementary real-thread tier (C05: FnRefs dropped on other threads; C20:
//! runs on one `&FnGraph` from different OS threads).  Safety oracles are the
//! usual ones; liveness is judged only at *quiescence* (all dropper threads
//! have acknowledged their drops, the consumer is pending and its wake flag is
//! not set), never by a time-out.  This tier samples interleavings inside a
//! poll; it cannot enumerate them.

use std::sync::atomic::{AtomicBool, AtomicUsize, Ordering};
use std::sync::Arc;
use std::task::{Context, Poll, Wake, Waker};

use fn_graph::{FnRef, StreamOpts};
use futures::Stream;
use serde::{Deserialize, Serialize};
use serde_json::json;

use crate::cases::{drive, Schedule};
use crate::driver::{CaseReport, Check};
use crate::explore::{Ev, GRef, Ret, Runner, Stepper};
use crate::gen::{decode_cfg, decode_spec, size_class, Profile, RunCfg, Shape};
use crate::model::{build_graph, GraphFacts, GraphSpec, TestFn};
use crate::oracle::{check_run, Violation};
use crate::single::hash_of;
use crate::tape::Tape;

fn v(prop: &str, kind: &str, msg: String) -> Violation {
    Violation {
        prop: prop.into(),
        kind: kind.into(),
        msg,
    }
}

struct FlagWaker {
    woken: AtomicBool,
    thread: std::thread::Thread,
}
impl Wake for FlagWaker {
    fn wake(self: Arc<Self>) {
        self.woken.store(true, Ordering::SeqCst);
        self.thread.unpark();
    }
    fn wake_by_ref(self: &Arc<Self>) {
        self.woken.store(true, Ordering::SeqCst);
        self.thread.unpark();
    }
}

#[derive(Clone, Debug, PartialEq, Eq, Hash, Serialize, Deserialize)]
pub struct ThreadStreamCase {
    pub spec: GraphSpec,
    pub rev: bool,
    pub workers: usize,
    /// Spin iterations before a worker drops the FnRef of function i.
    pub delays: Vec<u16>,
    /// The consumer holds back this many FnRefs before handing them over in a batch.
    pub batch: usize,
}

pub struct ThreadStreamResult {
    pub violations: Vec<Violation>,
    pub yielded: usize,
    pub pending_polls: usize,
}

pub fn run_stream_threads(case: &ThreadStreamCase) -> ThreadStreamResult {
    let g = build_graph(&case.spec);
    let facts = GraphFacts::new(&case.spec, &g);
    let n = facts.n;
    let pred = facts.pred_built(case.rev);
    let dropped: Vec<AtomicBool> = (0..n).map(|_| AtomicBool::new(false)).collect();
    let acked = AtomicUsize::new(0);
    let mut out = vec![];
    let mut yielded: Vec<usize> = vec![];
    let mut pending_polls = 0usize;
    let k = case.workers.max(1);
    std::thread::scope(|sc| {
        let mut txs = vec![];
        for _ in 0..k {
            let (tx, rx) = std::sync::mpsc::channel::<FnRef<'_, TestFn>>();
            txs.push(tx);
            let (dropped, acked, delays) = (&dropped, &acked, &case.delays);
            sc.spawn(move || {
                for f in rx {
                    let id = f.id;
                    for _ in 0..delays.get(id).copied().unwrap_or(0) {
                        std::hint::spin_loop();
                    }
                    dropped[id].store(true, Ordering::SeqCst);
                    drop(f);
                    acked.fetch_add(1, Ordering::SeqCst);
                }
            });
        }
        let flag = Arc::new(FlagWaker {
            woken: AtomicBool::new(false),
            thread: std::thread::current(),
        });
        let waker = Waker::from(flag.clone());
        let mut cx = Context::from_waker(&waker);
        let mut opts = StreamOpts::new();
        if case.rev {
            opts = opts.rev();
        }
        let mut stream = Box::pin(g.stream_with(opts));
        let mut sent = 0usize;
        let mut held: Vec<FnRef<'_, TestFn>> = vec![];
        'outer: loop {
            flag.woken.store(false, Ordering::SeqCst);
            match stream.as_mut().poll_next(&mut cx) {
                Poll::Ready(Some(f)) => {
                    let id = f.id;
                    if yielded.contains(&id) {
                        out.push(v("C03", "double-start", format!("function {id} yielded twice (threads)")));
                    }
                    for &u in &pred[id] {
                        if !dropped[u].load(Ordering::SeqCst) {
                            out.push(v(
                                "C05",
                                "yielded-before-predecessor-dropped",
                                format!("function {id} yielded before the FnRef of {u} was dropped (threads)"),
                            ));
                        }
                    }
                    yielded.push(id);
                    held.push(f);
                    if held.len() > case.batch {
                        for f in held.drain(..) {
                            let w = f.id % k;
                            sent += 1;
                            let _ = txs[w].send(f);
                        }
                    }
                }
                Poll::Ready(None) => break,
                Poll::Pending => {
                    pending_polls += 1;
                    // hand over everything we hold: otherwise nothing can progress
                    for f in held.drain(..) {
                        let w = f.id % k;
                        sent += 1;
                        let _ = txs[w].send(f);
                    }
                    loop {
                        if flag.woken.load(Ordering::SeqCst) {
                            break;
                        }
                        if acked.load(Ordering::SeqCst) == sent {
                            // quiescent: every drop (and the wake-up it causes) has completed
                            if flag.woken.load(Ordering::SeqCst) {
                                break;
                            }
                            if yielded.len() < n {
                                out.push(v(
                                    "C05",
                                    "stall-threads",
                                    format!(
                                        "stream pending, all {sent} handed-out FnRefs were dropped on other threads, no wake-up signalled, {} of {n} functions yielded",
                                        yielded.len()
                                    ),
                                ));
                            } else {
                                out.push(v(
                                    "C05",
                                    "pending-after-all-yielded",
                                    "all functions yielded and dropped but the stream is pending without wake-up (threads)".into(),
                                ));
                            }
                            break 'outer;
                        }
                        std::thread::park_timeout(std::time::Duration::from_micros(200));
                    }
                }
            }
        }
        if out.is_empty() && yielded.len() != n {
            out.push(v(
                "C05",
                "ended-early",
                format!("stream ended after {} of {n} functions (threads)", yielded.len()),
            ));
        }
        drop(held);
        drop(txs);
        drop(stream);
    });
    ThreadStreamResult {
        violations: out,
        yielded: yielded.len(),
        pending_polls,
    }
}

pub struct ThreadStreamCheck {
    pub profile: Profile,
}

pub const THREAD_STREAM_RULE: &str = "threads tier: non-trivial = the consumer saw Pending at least once while FnRefs were being dropped on >= 1 other thread and the graph has >= 1 edge";

impl ThreadStreamCheck {
    pub fn new() -> Self {
        let mut profile = Profile::base(16).with_apis(&[Shape::Stream], 1, 0);
        profile.pct_wide = 1;
        profile.permille_huge = 0;
        ThreadStreamCheck { profile }
    }
}

impl Default for ThreadStreamCheck {
    fn default() -> Self {
        Self::new()
    }
}

impl Check for ThreadStreamCheck {
    fn name(&self) -> String {
        "threads-stream:C05".into()
    }
    fn tape_lens(&self) -> Vec<usize> {
        vec![200, 60]
    }
    fn run_case(&self, tapes: &[Vec<u16>], want_decoded: bool) -> CaseReport {
        let mut gt = Tape::new(&tapes[0]);
        let spec = decode_spec(&mut gt, &self.profile);
        let n = spec.n();
        let mut x = Tape::new(&tapes[1]);
        let case = ThreadStreamCase {
            rev: x.chance(1, 2),
            workers: 1 + x.below(3),
            batch: x.below(4),
            delays: (0..n).map(|_| [0u16, 0, 50, 400, 3000][x.below(5)]).collect(),
            spec,
        };
        let r = run_stream_threads(&case);
        CaseReport {
            nontrivial: r.pending_polls > 0 && !case.spec.edges.is_empty(),
            hash: hash_of(&case),
            labels: vec![
                format!("size:{}", size_class(n)),
                format!("workers:{}", case.workers),
                format!("pending_polls:{}", match r.pending_polls { 0 => "0", 1..=3 => "1..3", _ => "4+" }),
            ],
            decoded: if want_decoded { Some(json!({"kind": "threads-stream", "case": case})) } else { None },
            violations: r.violations,
            executions: 1,
        }
    }
}

// ---------------------------------------------------------------------------------------------
// C20: two controlled runs on one &FnGraph from two OS threads
// ---------------------------------------------------------------------------------------------

#[derive(Clone, Debug, PartialEq, Eq, Hash, Serialize, Deserialize)]
pub struct ThreadMultiCase {
    pub spec: GraphSpec,
    pub cfgs: Vec<RunCfg>,
    pub tapes: Vec<Vec<u16>>,
}

pub struct ThreadMultiCheck {
    pub profile: Profile,
    pub max_actions: usize,
}

pub const THREAD_MULTI_RULE: &str = "threads tier: non-trivial = two runs on one &FnGraph executed on two OS threads at the same time, both handing out >= 1 function";

impl ThreadMultiCheck {
    pub fn new() -> Self {
        let mut profile = Profile::base(16).with_apis(
            &[Shape::ForEach, Shape::TryForEach, Shape::TryControl, Shape::Fold, Shape::TryFold],
            6,
            1,
        );
        profile.pct_wide = 1;
        profile.permille_huge = 0;
        ThreadMultiCheck {
            profile,
            max_actions: 200,
        }
    }
}

impl Default for ThreadMultiCheck {
    fn default() -> Self {
        Self::new()
    }
}

type RunResult = (Vec<Ev>, Vec<crate::explore::Act>, Ret);

fn run_on_thread(g: &fn_graph::FnGraph<TestFn>, cfg: &RunCfg, tape: &[u16], max_actions: usize) -> RunResult {
    let mut r = Runner::new(GRef::Shared(g), cfg);
    let mut t = Tape::new(tape);
    drive(&mut r, Schedule::Tape(&mut t, max_actions, None), false);
    let ret = match r.ret() {
        Some(x) => x.clone(),
        None => {
            if r.stuck() {
                Ret::Deadlock
            } else {
                Ret::Livelock
            }
        }
    };
    (r.trace(), r.acts().to_vec(), ret)
}

impl Check for ThreadMultiCheck {
    fn name(&self) -> String {
        "threads-multi:C20".into()
    }
    fn tape_lens(&self) -> Vec<usize> {
        vec![200, 80, 300, 300]
    }
    fn run_case(&self, tapes: &[Vec<u16>], want_decoded: bool) -> CaseReport {
        let mut gt = Tape::new(&tapes[0]);
        let spec = decode_spec(&mut gt, &self.profile);
        let n = spec.n();
        let mut ct = Tape::new(&tapes[1]);
        let cfgs: Vec<RunCfg> = (0..2)
            .map(|_| decode_cfg(&mut ct, &self.profile, n, crate::explore::INTR))
            .collect();
        let g = build_graph(&spec);
        let facts = GraphFacts::new(&spec, &g);
        let barrier = std::sync::Barrier::new(2);
        let results: Vec<RunResult> = std::thread::scope(|sc| {
            let hs: Vec<_> = (0..2)
                .map(|i| {
                    let (g, cfg, tape, barrier, ma) = (&g, &cfgs[i], &tapes[2 + i], &barrier, self.max_actions);
                    sc.spawn(move || {
                        barrier.wait();
                        run_on_thread(g, cfg, tape, ma)
                    })
                })
                .collect();
            hs.into_iter().map(|h| h.join().expect("run thread")).collect()
        });
        let mut out = vec![];
        let mut ran = 0;
        for (i, (trace, acts, ret)) in results.iter().enumerate() {
            let (viol, st) = check_run(&facts, &cfgs[i], trace, acts, ret, &[]);
            if !st.started.is_empty() {
                ran += 1;
            }
            out.extend(viol);
            // non-interference: the same actions alone on a fresh graph
            let g2 = build_graph(&spec);
            let mut solo = Runner::new(GRef::Shared(&g2), &cfgs[i]);
            let ok = drive(&mut solo, Schedule::Strict(acts), false);
            let sret = solo.ret().cloned().unwrap_or(Ret::Deadlock);
            if !ok || &solo.trace() != trace || &sret != ret {
                out.push(v(
                    "C20",
                    "interference-threads",
                    format!(
                        "run {i} ({}) on a thread next to another run: trace={trace:?} ret={ret:?}; alone: trace={:?} ret={sret:?} (applicable={ok})",
                        cfgs[i].api.name(),
                        solo.trace()
                    ),
                ));
            }
        }
        let case = ThreadMultiCase {
            spec,
            cfgs,
            tapes: tapes[2..].to_vec(),
        };
        CaseReport {
            nontrivial: ran == 2,
            hash: hash_of(&case),
            labels: vec![format!("size:{}", size_class(n)), format!("runs_that_ran:{ran}")],
            decoded: if want_decoded { Some(json!({"kind": "threads-multi", "case": case})) } else { None },
            violations: out,
            executions: 4,
        }
    }
}
