//! Histories (C15) and simultaneous runs (C20) on one graph value.

use serde::{Deserialize, Serialize};
use serde_json::{json, Value};

use crate::cases::{choose, drive, run_on, run_on_ref, Schedule, HARD_ACTION_CAP};
use crate::driver::{CaseReport, Check};
use crate::explore::{in_task_poll_burn, Act, Consumer, Ev, External, GRef, Ret, Runner, Stepper, INTR};
use crate::gen::{decode_cfg, decode_spec, size_class, Profile, RunCfg, Shape, CALL_SHAPES};
use crate::model::{build_graph, GraphFacts, GraphSpec};
use crate::oracle::{check_run, Violation};
use crate::single::hash_of;
use crate::tape::Tape;

fn v(prop: &str, kind: &str, msg: String) -> Violation {
    Violation {
        prop: prop.into(),
        kind: kind.into(),
        msg,
    }
}

// ---------------------------------------------------------------------------------------------
// C15: histories
// ---------------------------------------------------------------------------------------------

#[derive(Clone, Debug, PartialEq, Eq, Hash, Serialize, Deserialize)]
pub enum Earlier {
    /// A streaming run; `abort_after = Some(k)`: drop the future / stream after k actions.
    Run {
        cfg: RunCfg,
        acts: Vec<Act>,
        /// A streaming run whose `FnRef`s still held when the stream has ended
        /// (or was dropped) stay alive: later runs drop them at generated points
        /// (`Act::External`).
        #[serde(default)]
        keep: bool,
    },
    /// A sequential walk over the graph (`iter`, `fold`, `try_for_each` with an error ...).
    Sequential(u8),
    /// Between two runs: the k-th thing left over from earlier runs (a `FnRef`, a
    /// stream value) is dropped now.
    DropLeftover(usize),
}

#[derive(Clone, Debug, PartialEq, Eq, Hash, Serialize, Deserialize)]
pub struct HistoryCase {
    pub spec: GraphSpec,
    pub earlier: Vec<Earlier>,
    pub last_cfg: RunCfg,
    pub last_acts: Vec<Act>,
}

pub struct HistoryCheck {
    pub profile: Profile,
    pub max_actions: usize,
    pub thorough: bool,
}

pub const HISTORY_RULE: &str = "non-trivial: >= 1 earlier run on the same graph value ended abnormally (future or stream dropped midway, failed, interrupted, or a sequential walk that stopped at an error); distinct by hash of (spec, history, last run incl. action list)";

fn all_shapes() -> Vec<Shape> {
    let mut s = CALL_SHAPES.to_vec();
    s.push(Shape::Stream);
    if INTR {
        s.push(Shape::StreamIntr);
    }
    s
}

impl HistoryCheck {
    pub fn new(thorough: bool) -> Self {
        let mut profile = Profile::base(if thorough { 24 } else { 14 }).with_apis(&all_shapes(), 6, 1);
        profile.pct_wide = 2;
        profile.permille_huge = 1;
        HistoryCheck {
            profile,
            max_actions: if thorough { 300 } else { 150 },
            thorough,
        }
    }
}

fn sequential_walk(g: &mut fn_graph::FnGraph<crate::model::TestFn>, which: u8) {
    match which % 5 {
        0 => {
            let _ = g.iter().count();
        }
        1 => {
            let _ = g.fold(0usize, |a, f| a + f.id);
        }
        2 => {
            // stops at the second function
            let mut k = 0;
            let _: Result<(), ()> = g.try_for_each(|_| {
                k += 1;
                if k == 2 {
                    Err(())
                } else {
                    Ok(())
                }
            });
        }
        3 => {
            let _ = g.iter_rev().count();
        }
        _ => {
            // partially consumed map iterator, dropped midway
            let mut it = g.map(|f| f.id);
            let _ = it.next();
        }
    }
}

/// `FnRef`s of earlier runs that are still alive.  Their graph borrow is erased;
/// they are always dropped before the graph is borrowed mutably or goes away.
pub struct Leftovers(Vec<External>);

impl Leftovers {
    fn keep(&mut self, f: fn_graph::FnRef<'_, crate::model::TestFn>) {
        // SAFETY: see the type's contract; `drop_all` runs before every `&mut`
        // use of the graph and before the graph is dropped.
        let f: fn_graph::FnRef<'static, crate::model::TestFn> = unsafe { std::mem::transmute(f) };
        self.0.push(Box::new(move || drop(f)));
    }
    /// A stream value kept alive after its run.
    fn keep_stream(&mut self, s: std::pin::Pin<Box<dyn futures::Stream<Item = crate::explore::Item<'_>> + '_>>) {
        // SAFETY: as for `keep`.
        let s: std::pin::Pin<Box<dyn futures::Stream<Item = crate::explore::Item<'static>> + 'static>> =
            unsafe { std::mem::transmute(s) };
        self.0.push(Box::new(move || drop(s)));
    }
    fn drop_one(&mut self, k: usize) {
        if k < self.0.len() {
            let e = self.0.remove(k);
            let _ = std::panic::catch_unwind(std::panic::AssertUnwindSafe(e));
        }
    }
    fn drop_all(&mut self) {
        for e in self.0.drain(..) {
            let _ = std::panic::catch_unwind(std::panic::AssertUnwindSafe(e));
        }
    }
}

impl Drop for Leftovers {
    fn drop(&mut self) {
        self.drop_all();
    }
}

fn gref<'g>(
    g: &'g mut fn_graph::FnGraph<crate::model::TestFn>,
    cfg: &RunCfg,
    left: &mut Leftovers,
) -> GRef<'g> {
    if cfg.api.shape.is_mut() {
        left.drop_all();
        GRef::Mut(g)
    } else {
        GRef::Shared(&*g)
    }
}

/// Execute a run with tape-driven schedule, optionally aborting after `abort` actions.
fn run_with_abort(
    g: &mut fn_graph::FnGraph<crate::model::TestFn>,
    cfg: &RunCfg,
    t: &mut Tape,
    max_actions: usize,
    abort: Option<usize>,
    keep: bool,
    left: &mut Leftovers,
) -> (Vec<Act>, Ret, Vec<Ev>) {
    fn go(s: &mut dyn Stepper, t: &mut Tape, max_actions: usize, abort: Option<usize>, keep: bool) {
        let mut k = 0usize;
        while !s.done() && !s.stuck() && k < HARD_ACTION_CAP {
            if keep && !s.source_live() {
                break;
            }
            if abort == Some(k) {
                s.apply(Act::Abort);
                // a consumer may still hold FnRefs: drop them afterwards
                k += 1;
                continue;
            }
            let opts = s.options();
            if opts.is_empty() {
                break;
            }
            let a = if k >= max_actions {
                opts[0]
            } else {
                choose(t, s.wants_poll(), &opts)
            };
            s.apply(a);
            k += 1;
        }
    }
    if cfg.api.shape.is_stream() {
        let mut c = Consumer::new(&*g, cfg);
        c.set_externals(std::mem::take(&mut left.0));
        go(&mut c, t, max_actions, abort, keep);
        left.0 = c.take_externals();
        if keep {
            for f in c.take_held() {
                left.keep(f);
            }
            if let Some(s) = c.take_stream() {
                left.keep_stream(s);
            }
        }
        let ret = c.ret().cloned().unwrap_or(Ret::Deadlock);
        (c.acts().to_vec(), ret, c.trace())
    } else {
        let mut r = Runner::new(gref(g, cfg, left), cfg);
        r.set_externals(std::mem::take(&mut left.0));
        go(&mut r, t, max_actions, abort, false);
        left.0 = r.take_externals();
        let ret = r.ret().cloned().unwrap_or(Ret::Deadlock);
        (r.acts().to_vec(), ret, r.trace())
    }
}

fn replay_earlier(g: &mut fn_graph::FnGraph<crate::model::TestFn>, e: &Earlier, left: &mut Leftovers) {
    match e {
        Earlier::Sequential(w) => {
            left.drop_all();
            sequential_walk(g, *w)
        }
        Earlier::DropLeftover(k) => left.drop_one(*k),
        Earlier::Run { cfg, acts, keep } => {
            if cfg.api.shape.is_stream() {
                let mut c = Consumer::new(&*g, cfg);
                c.set_externals(std::mem::take(&mut left.0));
                drive(&mut c, Schedule::Strict(acts), false);
                left.0 = c.take_externals();
                if *keep {
                    for f in c.take_held() {
                        left.keep(f);
                    }
                    if let Some(s) = c.take_stream() {
                        left.keep_stream(s);
                    }
                }
            } else {
                let mut r = Runner::new(gref(g, cfg, left), cfg);
                r.set_externals(std::mem::take(&mut left.0));
                drive(&mut r, Schedule::Strict(acts), false);
                left.0 = r.take_externals();
            }
        }
    }
}

pub struct HistoryEval {
    pub violations: Vec<Violation>,
    pub abnormal: bool,
    pub executions: u64,
    pub last_ret: Ret,
}

/// Evaluate a decoded history: replay the earlier runs on one graph value, run
/// the last run on it and on a freshly built graph, compare.
pub fn eval_history(case: &HistoryCase) -> HistoryEval {
    let mut g = build_graph(&case.spec);
    let mut left = Leftovers(Vec::new());
    let facts = GraphFacts::new(&case.spec, &g);
    for e in &case.earlier {
        replay_earlier(&mut g, e, &mut left);
    }
    let r1 = {
        let gr = gref(&mut g, &case.last_cfg, &mut left);
        run_on_ref(gr, facts.clone(), &case.last_cfg, Schedule::Replay(&case.last_acts), &mut left.0)
    };
    left.drop_all();
    let mut g2 = build_graph(&case.spec);
    let r2 = run_on(&mut g2, facts, &case.last_cfg, Schedule::Strict(&r1.acts));
    let mut out = vec![];
    if !r2.strict_ok || r1.trace != r2.trace || r1.ret != r2.ret {
        out.push(v(
            "C15",
            "reused-graph-behaves-differently",
            format!(
                "after the history the run gave trace={:?} ret={:?}; on a fresh graph trace={:?} ret={:?} (replay applicable={})",
                r1.trace, r1.ret, r2.trace, r2.ret, r2.strict_ok
            ),
        ));
    }
    // single-run oracles on the reused graph, attributed to C15 as well
    for x in &r1.violations {
        out.push(x.clone());
    }
    HistoryEval {
        violations: out,
        abnormal: false,
        executions: 2 + case.earlier.len() as u64,
        last_ret: r1.ret,
    }
}

impl HistoryCheck {
    /// Long history on a small graph: one run with a random configuration, then one
    /// configuration repeated 256..=319 times (thorough, one case in twenty: 65 600
    /// times), every repetition driven by the default policy and compared with the
    /// same run on a fresh graph.  Reaches per-graph bookkeeping that only
    /// misbehaves after many runs (a wrapping generation counter, a growing cache).
    fn run_long(&self, spec: GraphSpec, ct: &mut Tape, want_decoded: bool) -> CaseReport {
        let n = spec.n();
        let mut g = build_graph(&spec);
        let facts = GraphFacts::new(&spec, &g);
        let mut earlier = vec![];
        let c0 = decode_cfg(ct, &self.profile, n, INTR);
        let r0 = run_on(&mut g, facts.clone(), &c0, Schedule::Tape(&mut Tape::new(&[]), 0, None));
        earlier.push(Earlier::Run { cfg: c0, acts: r0.acts, keep: false });
        let rc = decode_cfg(ct, &self.profile, n, INTR);
        let k = if self.thorough && ct.chance(1, 20) { 65_600 } else { 256 + ct.below(64) };
        let mut gf = build_graph(&spec);
        let exp = run_on(&mut gf, facts.clone(), &rc, Schedule::Tape(&mut Tape::new(&[]), 0, None));
        drop(gf);
        let mut violations = vec![];
        let mut last_acts = exp.acts.clone();
        let mut last_ret = exp.ret.clone();
        let mut last_trace = exp.trace.clone();
        let mut done = 0usize;
        for _ in 0..k {
            let r = run_on(&mut g, facts.clone(), &rc, Schedule::Tape(&mut Tape::new(&[]), 0, None));
            done += 1;
            if r.trace != exp.trace || r.ret != exp.ret {
                violations.push(v(
                    "C15",
                    "reused-graph-behaves-differently",
                    format!(
                        "run #{} on the same graph value gave trace={:?} ret={:?}; on a fresh graph trace={:?} ret={:?}",
                        done + 1, r.trace, r.ret, exp.trace, exp.ret
                    ),
                ));
                violations.extend(r.violations.iter().cloned());
                last_acts = r.acts;
                last_ret = r.ret;
                last_trace = r.trace;
                break;
            }
            // keep the stored history short unless it is needed: only lengths matter
            if earlier.len() < 70_000 {
                earlier.push(Earlier::Run { cfg: rc.clone(), acts: r.acts, keep: false });
            }
        }
        if violations.is_empty() {
            // the last repetition is the "last run" of the history
            earlier.pop();
        }
        let abnormal = !matches!(exp.ret, Ret::Out(ref o) if o.state == "Finished") && !matches!(exp.ret, Ret::Cont(_) | Ret::StreamEnd);
        let hash = hash_of(&(&spec, &rc, earlier.len(), &earlier[0]));
        let labels = vec![
            format!("size:{}", size_class(n)),
            format!("earlier_runs:{}", if earlier.len() > 60_000 { ">65535" } else { "256..320" }),
            format!("last_api:{}", rc.api.name()),
            format!("last_ret:{}", last_ret.label()),
            "history:long_repetition".to_string(),
        ];
        let case = HistoryCase { spec, earlier, last_cfg: rc, last_acts };
        CaseReport {
            nontrivial: abnormal,
            hash,
            labels,
            decoded: if want_decoded || !violations.is_empty() {
                Some(json!({"kind": "history", "intr_build": INTR, "case": case, "trace": last_trace, "ret": last_ret}))
            } else {
                None
            },
            violations,
            executions: done as u64 + 2,
        }
    }
}

impl Check for HistoryCheck {
    fn name(&self) -> String {
        "history:C15".into()
    }
    fn tape_lens(&self) -> Vec<usize> {
        if self.thorough {
            vec![300, 160, 900]
        } else {
            vec![200, 160, 500]
        }
    }
    fn run_case(&self, tapes: &[Vec<u16>], want_decoded: bool) -> CaseReport {
        let mut gt = Tape::new(&tapes[0]);
        let spec = decode_spec(&mut gt, &self.profile);
        let n = spec.n();
        let mut ct = Tape::new(&tapes[1]);
        let mut st = Tape::new(&tapes[2]);
        if n >= 41 {
            st.enable_tail();
        }
        if (2..=8).contains(&n) && ct.chance(1, 600) {
            return self.run_long(spec, &mut ct, want_decoded);
        }
        let mut g = build_graph(&spec);
        let mut left = Leftovers(Vec::new());
        let facts = GraphFacts::new(&spec, &g);
        let n_earlier = 1 + ct.below(3);
        let mut earlier = vec![];
        let mut abnormal = false;
        let mut execs = 0u64;
        for _ in 0..n_earlier {
            if !left.0.is_empty() && ct.chance(1, 3) {
                let k = ct.below(left.0.len());
                left.drop_one(k);
                earlier.push(Earlier::DropLeftover(k));
            }
            if ct.chance(1, 6) {
                let w = ct.below(5) as u8;
                left.drop_all();
                sequential_walk(&mut g, w);
                if w % 5 == 2 || w % 5 == 4 {
                    abnormal = true;
                }
                earlier.push(Earlier::Sequential(w));
                continue;
            }
            let cfg = decode_cfg(&mut ct, &self.profile, n, INTR);
            let abort = if ct.chance(2, 5) { Some(ct.below(8)) } else { None };
            let keep = cfg.api.shape.is_stream() && ct.chance(1, 3);
            let (acts, ret, _trace) =
                run_with_abort(&mut g, &cfg, &mut st, self.max_actions / 2, abort, keep, &mut left);
            execs += 1;
            if !matches!(ret, Ret::Out(ref o) if o.state == "Finished")
                && !matches!(ret, Ret::Cont(_) | Ret::StreamEnd)
            {
                abnormal = true;
            }
            if acts.contains(&Act::Abort) {
                abnormal = true;
            }
            earlier.push(Earlier::Run { cfg, acts, keep });
        }
        if !left.0.is_empty() && ct.chance(1, 3) {
            let k = ct.below(left.0.len());
            left.drop_one(k);
            earlier.push(Earlier::DropLeftover(k));
        }
        let last_cfg = decode_cfg(&mut ct, &self.profile, n, INTR);
        let r1 = {
            let gr = gref(&mut g, &last_cfg, &mut left);
            run_on_ref(gr, facts.clone(), &last_cfg, Schedule::Tape(&mut st, self.max_actions, None), &mut left.0)
        };
        left.drop_all();
        let mut g2 = build_graph(&spec);
        let r2 = run_on(&mut g2, facts, &last_cfg, Schedule::Strict(&r1.acts));
        execs += 2;
        let mut violations = vec![];
        if !r2.strict_ok || r1.trace != r2.trace || r1.ret != r2.ret {
            violations.push(v(
                "C15",
                "reused-graph-behaves-differently",
                format!(
                    "after the history the run gave trace={:?} ret={:?}; on a fresh graph trace={:?} ret={:?} (replay applicable={})",
                    r1.trace, r1.ret, r2.trace, r2.ret, r2.strict_ok
                ),
            ));
        }
        violations.extend(r1.violations.iter().cloned());
        let case = HistoryCase {
            spec,
            earlier,
            last_cfg,
            last_acts: r1.acts.clone(),
        };
        let mut labels = vec![
            format!("size:{}", size_class(n)),
            format!("earlier_runs:{}", case.earlier.len()),
            format!("last_api:{}", case.last_cfg.api.name()),
            format!("last_ret:{}", r1.ret.label()),
        ];
        if abnormal {
            labels.push("history:abnormal_earlier_run".into());
        }
        if r1.acts.iter().any(|a| matches!(a, Act::External(_))) {
            labels.push("history:earlier_fnref_dropped_during_last_run".into());
        }
        for e in &case.earlier {
            match e {
                Earlier::Sequential(_) => labels.push("history:has_sequential_walk".into()),
                Earlier::DropLeftover(_) => labels.push("history:leftover_dropped_between_runs".into()),
                Earlier::Run { cfg, acts, .. } => {
                    if acts.contains(&Act::Abort) {
                        labels.push(format!(
                            "history:aborted_{}",
                            if cfg.api.shape.is_stream() { "stream" } else { "call" }
                        ));
                    }
                    if cfg.api.shape.is_mut() {
                        labels.push("history:has_mut_run".into());
                    }
                }
            }
        }
        labels.sort();
        labels.dedup();
        CaseReport {
            nontrivial: abnormal,
            hash: hash_of(&case),
            labels,
            decoded: if want_decoded {
                Some(json!({"kind": "history", "intr_build": INTR, "case": case, "trace": r1.trace, "ret": r1.ret}))
            } else {
                None
            },
            violations,
            executions: execs,
        }
    }
}

// ---------------------------------------------------------------------------------------------
// C20: simultaneous runs on one &FnGraph
// ---------------------------------------------------------------------------------------------

#[derive(Clone, Debug, PartialEq, Eq, Hash, Serialize, Deserialize)]
pub struct MultiCase {
    pub spec: GraphSpec,
    pub cfgs: Vec<RunCfg>,
    /// Interleaved schedule: (run index, action).
    pub schedule: Vec<(usize, Act)>,
    /// All runs polled from one task (one shared waker, `join`-like) instead of
    /// separate tasks.
    pub one_task: bool,
    /// One-task mode inside tokio task polls: the runs share the task's
    /// cooperative budget.  The schedule then contains window markers
    /// `(usize::MAX, Burn(k))` / `(usize::MAX, Yield)`.
    #[serde(default)]
    pub coop: bool,
}

const MARK: usize = usize::MAX;

pub struct MultiCheck {
    pub profile: Profile,
    pub max_actions: usize,
    pub thorough: bool,
}

pub const MULTI_RULE: &str = "non-trivial: a second run started before the first ended and both handed out >= 1 function; distinct by hash of (spec, configs, interleaved schedule)";

fn shared_shapes() -> Vec<Shape> {
    let mut s = vec![
        Shape::ForEach,
        Shape::TryForEach,
        Shape::TryControl,
        Shape::Fold,
        Shape::TryFold,
        Shape::Stream,
    ];
    if INTR {
        s.push(Shape::StreamIntr);
    }
    s
}

impl MultiCheck {
    pub fn new(thorough: bool) -> Self {
        let mut profile = Profile::base(if thorough { 24 } else { 14 }).with_apis(&shared_shapes(), 6, 1);
        profile.pct_wide = 2;
        profile.pct_medium = 30;
        profile.fan_den = 3;
        profile.permille_huge = 1;
        MultiCheck {
            profile,
            max_actions: if thorough { 500 } else { 250 },
            thorough,
        }
    }
}

fn make_stepper<'g>(g: &'g fn_graph::FnGraph<crate::model::TestFn>, cfg: &RunCfg) -> Box<dyn Stepper + 'g> {
    if cfg.api.shape.is_stream() {
        Box::new(Consumer::new(g, cfg))
    } else {
        Box::new(Runner::new(GRef::Shared(g), cfg))
    }
}

/// Apply `a` to run `i`.  `Act::PollNesting(j, nth)`: run `j` (created, not done)
/// is polled once inside that poll of run `i`, when `i` registers its waker for
/// the nth time.
fn apply_to<'g>(steppers: &mut [Option<Box<dyn Stepper + 'g>>], i: usize, a: Act) -> bool {
    if let Act::PollNesting(j, _) = a {
        if j != i && j < steppers.len() {
            if let Some(sj) = steppers[j].as_mut() {
                let pj: *mut (dyn Stepper + 'g) = &mut **sj;
                let hook: Box<dyn FnOnce() + 'g> = Box::new(move || {
                    // SAFETY: i != j, so this is another object than the stepper being
                    // polled; the hook runs synchronously inside that poll, while the
                    // caller (which owns the slice) does nothing else.
                    let sj = unsafe { &mut *pj };
                    if !sj.done() {
                        sj.apply(Act::Poll);
                    }
                });
                // SAFETY: the hook is removed again before this function returns.
                let hook: Box<dyn FnOnce()> = unsafe { std::mem::transmute(hook) };
                let si = steppers[i].as_mut().unwrap();
                si.set_nested_hook(Some(hook));
                let ok = si.apply(a);
                si.set_nested_hook(None);
                return ok;
            }
        }
    }
    steppers[i].as_mut().unwrap().apply(a)
}

fn final_ret(s: &dyn Stepper) -> Ret {
    match s.ret() {
        Some(r) if s.done() => r.clone(),
        Some(Ret::Panic(m)) => Ret::Panic(m.clone()),
        _ => {
            if s.stuck() {
                Ret::Deadlock
            } else {
                Ret::Livelock
            }
        }
    }
}

pub struct MultiEval {
    pub violations: Vec<Violation>,
    pub overlapping: bool,
    pub executions: u64,
    pub rets: Vec<Ret>,
    pub traces: Vec<Vec<Ev>>,
}

/// Apply an interleaved schedule (strictly or leniently) and evaluate: every
/// single-run oracle on each run's own trace, and non-interference (each run
/// replayed alone with its projected actions gives the same trace and result).
pub fn eval_multi(case: &MultiCase, lenient: bool) -> (MultiEval, Vec<(usize, Act)>) {
    let g = build_graph(&case.spec);
    let facts = GraphFacts::new(&case.spec, &g);
    let k = case.cfgs.len();
    let mut steppers: Vec<Option<Box<dyn Stepper + '_>>> = (0..k).map(|_| None).collect();
    let mut started_order: Vec<usize> = vec![];
    let mut applied: Vec<(usize, Act)> = vec![];
    let mut overlap_started = vec![false; k];
    // split the schedule into windows (a single window without markers)
    let mut windows: Vec<(usize, Vec<(usize, Act)>)> = vec![];
    {
        let mut cur: Vec<(usize, Act)> = vec![];
        let mut burn = 0usize;
        for &(i, a) in &case.schedule {
            if i == MARK {
                match a {
                    Act::Burn(b) => burn = b,
                    Act::Yield => {
                        windows.push((burn, std::mem::take(&mut cur)));
                        burn = 0;
                    }
                    _ => {}
                }
            } else {
                cur.push((i, a));
            }
        }
        if !cur.is_empty() || windows.is_empty() {
            windows.push((burn, cur));
        }
    }
    let coop = case.coop;
    for (burn, window) in windows {
        if coop && burn > 0 {
            applied.push((MARK, Act::Burn(burn)));
        }
        let mut body = || {
            for &(i, a) in &window {
                if i >= k {
                    continue;
                }
                if steppers[i].is_none() {
                    // creating the run = calling the API (lazy futures: nothing runs yet)
                    for j in 0..k {
                        if j != i {
                            if let Some(s) = &steppers[j] {
                                if !s.done() {
                                    overlap_started[i] = true;
                                }
                            }
                        }
                    }
                    let mut st = make_stepper(&g, &case.cfgs[i]);
                    st.set_deferred(coop);
                    steppers[i] = Some(st);
                    started_order.push(i);
                }
                if steppers[i].as_ref().unwrap().done() {
                    continue;
                }
                if apply_to(&mut steppers, i, a) {
                    applied.push((i, a));
                } else if !lenient {
                    // strict replays only come from recorded schedules; an inapplicable
                    // action means the run diverged
                    applied.push((i, a));
                }
            }
        };
        if coop {
            in_task_poll_burn(burn, &mut body);
            applied.push((MARK, Act::Yield));
            for s in steppers.iter_mut().flatten() {
                s.set_deferred(false);
                s.note_yield();
                s.observe();
                s.set_deferred(true);
            }
        } else {
            body();
        }
    }
    // finish every run with the default policy (round robin, lowest index first)
    let mut guard = 0usize;
    loop {
        let mut progressed = false;
        for i in 0..k {
            if steppers[i].is_none() {
                let mut st = make_stepper(&g, &case.cfgs[i]);
                st.set_deferred(coop);
                steppers[i] = Some(st);
            }
            let s = steppers[i].as_mut().unwrap();
            if coop {
                s.set_deferred(false);
            }
            if s.done() || s.stuck() {
                continue;
            }
            let opts = s.options();
            if opts.is_empty() {
                continue;
            }
            if coop {
                s.set_deferred(true);
                let ok = in_task_poll_burn(0, || s.apply(opts[0]));
                s.set_deferred(false);
                s.note_yield();
                s.observe();
                if ok {
                    applied.push((i, opts[0]));
                    applied.push((MARK, Act::Yield));
                    progressed = true;
                }
            } else if s.apply(opts[0]) {
                applied.push((i, opts[0]));
                progressed = true;
            }
            guard += 1;
        }
        if !progressed || guard > HARD_ACTION_CAP {
            break;
        }
    }
    let mut out = vec![];
    let mut rets = vec![];
    let mut traces = vec![];
    let mut both_ran = 0;
    for i in 0..k {
        let s = steppers[i].as_ref().unwrap();
        let ret = final_ret(s.as_ref());
        let trace = s.trace();
        let acts = s.acts().to_vec();
        let (viol, st) = check_run(&facts, &case.cfgs[i], &trace, &acts, &ret, &s.engine_violations());
        if !st.started.is_empty() {
            both_ran += 1;
        }
        // per-run guarantees keep their own property id; C20 itself is decided by
        // the non-interference differential below
        out.extend(viol);
        rets.push(ret);
        traces.push(trace);
    }
    // non-interference: solo replay on a fresh graph
    let mut execs = k as u64;
    if coop {
        // Runs in one tokio task share its cooperative budget, so *when* a poll
        // makes progress legitimately depends on the neighbour and exact traces
        // are not comparable.  What must hold: every per-run guarantee.  A
        // guarantee that is broken next to another run but holds for the same run
        // alone (same configuration, driven to completion inside task polls) is
        // an interference.
        let per_run = std::mem::take(&mut out);
        for x in per_run {
            out.push(x.clone());
            // which run? re-evaluate each run alone and look for the same property
            let mut broken_alone = false;
            for i in 0..k {
                let g2 = build_graph(&case.spec);
                let mut solo = make_stepper(&g2, &case.cfgs[i]);
                crate::cases::finish_default(solo.as_mut(), true);
                execs += 1;
                let sret = final_ret(solo.as_ref());
                let (sv, _) = check_run(&facts, &case.cfgs[i], &solo.trace(), solo.acts(), &sret, &solo.engine_violations());
                if sv.iter().any(|y| y.prop == x.prop) {
                    broken_alone = true;
                }
            }
            if !broken_alone {
                out.push(v(
                    "C20",
                    "guarantee-broken-next-to-another-run",
                    format!("[{}] {} — holds for each run alone, broken when the runs share one tokio task", x.prop, x.msg),
                ));
            }
        }
    } else {
        for i in 0..k {
            let s = steppers[i].as_ref().unwrap();
            let acts = s.acts().to_vec();
            let g2 = build_graph(&case.spec);
            let mut solo = make_stepper(&g2, &case.cfgs[i]);
            let ok = drive(solo.as_mut(), Schedule::Strict(&acts), false);
            execs += 1;
            let sret = final_ret(solo.as_ref());
            if !ok || solo.trace() != traces[i] || sret != rets[i] {
                out.push(v(
                    "C20",
                    "interference",
                    format!(
                        "run {i} ({}) interleaved: trace={:?} ret={:?}; alone with the same actions: trace={:?} ret={:?} (applicable={ok})",
                        case.cfgs[i].api.name(),
                        traces[i],
                        rets[i],
                        solo.trace(),
                        sret
                    ),
                ));
            }
        }
    }
    drop(steppers);
    (
        MultiEval {
            violations: out,
            overlapping: overlap_started.iter().any(|x| *x) && both_ran >= 2,
            executions: execs,
            rets,
            traces,
        },
        applied,
    )
}

impl Check for MultiCheck {
    fn name(&self) -> String {
        "multi:C20".into()
    }
    fn tape_lens(&self) -> Vec<usize> {
        if self.thorough {
            vec![300, 120, 900]
        } else {
            vec![200, 120, 500]
        }
    }
    fn run_case(&self, tapes: &[Vec<u16>], want_decoded: bool) -> CaseReport {
        let mut gt = Tape::new(&tapes[0]);
        let spec = decode_spec(&mut gt, &self.profile);
        let n = spec.n();
        let mut ct = Tape::new(&tapes[1]);
        // two runs, sometimes three, rarely many (9..=12: more runs alive at once than
        // any small pool of per-thread or per-graph resources holds)
        let k = if ct.chance(1, 40) { 9 + ct.below(4) } else { 2 + if ct.chance(1, 4) { 1 } else { 0 } };
        let mut cfgs: Vec<RunCfg> = (0..k).map(|_| decode_cfg(&mut ct, &self.profile, n, INTR)).collect();
        // twins: the same call made twice (two workers doing the same thing)
        if ct.chance(1, 2) {
            cfgs[1] = cfgs[0].clone();
        }
        let one_task = ct.chance(1, 3);
        let coop = one_task && ct.chance(1, 2);
        // lockstep: whatever is done to one run is done to the others right away
        // (as far as applicable), so the runs reach the same internal state together
        let lockstep = !one_task && ct.chance(1, 3);
        // generate the interleaving from the schedule tape by simulating
        let mut st = Tape::new(&tapes[2]);
        if n >= 41 {
            st.enable_tail();
        }
        let schedule = {
            let g = build_graph(&spec);
            let mut steppers: Vec<Option<Box<dyn Stepper + '_>>> = (0..k).map(|_| None).collect();
            let mut sched: Vec<(usize, Act)> = vec![];
            let mut steps = 0usize;
            let mut finished = false;
            // start offsets: run i is created when first chosen
            while steps < self.max_actions && !finished {
                // one window = one tokio task poll in coop mode, one step otherwise
                let (wsize, burn) = if coop {
                    (
                        match st.below(4) {
                            0 => 1,
                            1 => 1 + st.below(8),
                            2 => 1 + st.below(64),
                            _ => 1 + st.below(300),
                        },
                        match st.below(4) {
                            0 | 1 => 0,
                            2 => st.below(128),
                            _ => 96 + st.below(32),
                        },
                    )
                } else {
                    (1, 0)
                };
                if coop && burn > 0 {
                    sched.push((MARK, Act::Burn(burn)));
                }
                let mut body = || {
                    for _ in 0..wsize {
                        if steps >= self.max_actions {
                            break;
                        }
                        let live: Vec<usize> = (0..k)
                            .filter(|i| match &steppers[*i] {
                                None => true,
                                // inside a coop window "stuck" is not observable yet
                                Some(s) => !s.done() && (coop || !s.stuck()),
                            })
                            .collect();
                        if live.is_empty() {
                            finished = true;
                            break;
                        }
                        let i = live[st.below(live.len())];
                        if steppers[i].is_none() {
                            let mut stp = make_stepper(&g, &cfgs[i]);
                            stp.set_deferred(coop);
                            steppers[i] = Some(stp);
                        }
                        let s = steppers[i].as_mut().unwrap();
                        let opts = s.options();
                        if opts.is_empty() {
                            finished = true;
                            break;
                        }
                        let mut a = choose(&mut st, s.wants_poll(), &opts);
                        if a == Act::Poll && !one_task && st.chance(1, if lockstep { 3 } else { 5 }) {
                            // separate tasks may be polled on different threads at the
                            // same time: another live run is polled inside this poll
                            let others: Vec<usize> = (0..k)
                                .filter(|j| *j != i && steppers[*j].as_ref().is_some_and(|s| !s.done()))
                                .collect();
                            if !others.is_empty() {
                                a = Act::PollNesting(others[st.below(others.len())], 1 + st.below(3));
                            }
                        }
                        if a == Act::Poll && one_task {
                            // one task: a poll of the task polls every run it contains
                            for j in 0..k {
                                if let Some(sj) = steppers[j].as_mut() {
                                    if !sj.done() && sj.apply(Act::Poll) {
                                        sched.push((j, Act::Poll));
                                    }
                                }
                            }
                        } else if apply_to(&mut steppers, i, a) {
                            sched.push((i, a));
                            if lockstep && !matches!(a, Act::PollNesting(..) | Act::Abort) {
                                for j in 0..k {
                                    if j == i {
                                        continue;
                                    }
                                    if steppers[j].is_none() {
                                        let mut stp = make_stepper(&g, &cfgs[j]);
                                        stp.set_deferred(coop);
                                        steppers[j] = Some(stp);
                                    }
                                    if !steppers[j].as_ref().unwrap().done() && apply_to(&mut steppers, j, a) {
                                        sched.push((j, a));
                                    }
                                }
                            }
                        }
                        steps += 1;
                    }
                };
                if coop {
                    in_task_poll_burn(burn, &mut body);
                    sched.push((MARK, Act::Yield));
                    for s in steppers.iter_mut().flatten() {
                        s.set_deferred(false);
                        s.note_yield();
                        s.observe();
                        s.set_deferred(true);
                    }
                    // after the observation a run may be known to be stuck
                    if (0..k).all(|i| match &steppers[i] {
                        None => false,
                        Some(s) => {
                            s.done() || {
                                // peek with observation on
                                false
                            }
                        }
                    }) {
                        finished = true;
                    }
                } else {
                    body();
                }
            }
            sched
        };
        let mut case = MultiCase {
            spec,
            cfgs,
            schedule,
            one_task,
            coop,
        };
        let (ev, applied) = eval_multi(&case, true);
        case.schedule = applied;
        let mut labels = vec![
            format!("size:{}", size_class(n)),
            format!("runs:{}", k),
            format!("mode:{}", if coop { "one_tokio_task(shared coop budget)" } else if one_task { "one_task" } else { "separate_tasks" }),
        ];
        if ev.overlapping {
            labels.push("overlapping".into());
        }
        if lockstep {
            labels.push("schedule:lockstep".into());
        }
        if case.cfgs[0] == case.cfgs[1] {
            labels.push("runs:twins".into());
        }
        if case.schedule.iter().any(|(_, a)| matches!(a, Act::PollNesting(..))) {
            labels.push("schedule:poll_of_another_run_inside_a_poll".into());
        }
        for c in &case.cfgs {
            labels.push(format!("api:{}", c.api.name()));
        }
        labels.sort();
        labels.dedup();
        CaseReport {
            nontrivial: ev.overlapping,
            hash: hash_of(&case),
            labels,
            decoded: if want_decoded {
                Some(json!({"kind": "multi", "intr_build": INTR, "case": case, "traces": ev.traces, "rets": ev.rets}))
            } else {
                None
            },
            violations: ev.violations,
            executions: ev.executions,
        }
    }
}

pub fn history_decoded_eval(case: &HistoryCase) -> (Vec<Violation>, Value) {
    let ev = eval_history(case);
    (ev.violations, json!({"ret": ev.last_ret}))
}

// ---------------------------------------------------------------------------------------------
// C20: long overlaps
// ---------------------------------------------------------------------------------------------

/// Run A is started on a small graph and driven until its first function is in
/// flight; then K other runs are started and finished on the same graph
/// (K = 255, 256, 65 535, 65 536: run tags, tickets or pooled slots narrower than
/// `usize` wrap here); then A is driven to its end and compared with the same run
/// alone on a fresh graph.
pub struct OverlapHistories {
    pub instances: u64,
    pub runs: u64,
    pub violation: Option<(Violation, Value)>,
    pub samples: Vec<Value>,
    pub hashes: Vec<u64>,
}

fn overlap_base(shape: Shape, rev: bool, n: usize) -> RunCfg {
    use crate::gen::{Api, Strat};
    RunCfg {
        api: Api { shape, with: true },
        rev,
        limit: None,
        strat: Strat::NonInterruptible,
        include: true,
        failing: vec![],
        yields: vec![0; n],
        abort_after: None,
        instant: vec![],
        coop: false,
        drop_sender: false,
        pre_interrupted: 0,
        on_clone: false,
        unwind: vec![],
        rev_again: 0,
        opts_order: 0,
    }
}

/// One long overlap (see `overlap_histories`): violations, number of runs, A's result.
pub fn eval_overlap(spec: &GraphSpec, a_cfg: &RunCfg, k: u64) -> (Vec<Violation>, u64, Ret) {
    let n = spec.n();
    let mut o1 = overlap_base(Shape::ForEach, false, n);
    o1.instant = (0..n).collect();
    let mut o2 = overlap_base(Shape::Fold, true, n);
    o2.instant = (0..n).collect();
    let o3 = overlap_base(Shape::Stream, false, n);
    let g = build_graph(spec);
    let facts = GraphFacts::new(spec, &g);
    let mut a = make_stepper(&g, a_cfg);
    // A: poll until its first function is in flight
    a.apply(Act::Poll);
    let mut runs = 1u64;
    let mut stuck_other: Option<String> = None;
    for i in 0..k {
        let c = match i % 3 {
            0 => &o1,
            1 => &o2,
            _ => &o3,
        };
        let mut s = make_stepper(&g, c);
        crate::cases::finish_default(s.as_mut(), false);
        runs += 1;
        if (!s.done() || matches!(s.ret(), Some(Ret::Deadlock) | Some(Ret::Livelock))) && stuck_other.is_none() {
            // a clean run of functions that complete at once finishes on its own; if it
            // cannot while A is suspended, A's presence is what stops it
            stuck_other = Some(format!("other run #{i} ({}, reverse={}) did not finish while run A ({}) was suspended after its first poll: trace so far has {} events", c.api.name(), c.rev, a_cfg.api.name(), s.trace().len()));
        }
    }
    crate::cases::finish_default(a.as_mut(), false);
    let ret = final_ret(a.as_ref());
    let trace = a.trace();
    let acts = a.acts().to_vec();
    let (mut viol, _) = check_run(&facts, a_cfg, &trace, &acts, &ret, &a.engine_violations());
    if let Some(m) = stuck_other {
        viol.push(v("C20", "interference", m));
    }
    // alone, same actions
    let g2 = build_graph(spec);
    let mut solo = make_stepper(&g2, a_cfg);
    let ok = drive(solo.as_mut(), Schedule::Strict(&acts), false);
    let sret = final_ret(solo.as_ref());
    if !ok || solo.trace() != trace || sret != ret {
        viol.push(v(
            "C20",
            "interference",
            format!(
                "run A ({}) with {k} other runs started and finished on the same graph while it was in progress: trace={trace:?} ret={ret:?}; alone with the same actions: trace={:?} ret={sret:?}",
                a_cfg.api.name(),
                solo.trace()
            ),
        ));
    }
    drop(a);
    (viol, runs, ret)
}

pub fn overlap_histories(seed: u64) -> OverlapHistories {
    use crate::model::{Kind, TestFn};
    use std::sync::Mutex;
    let res: Mutex<OverlapHistories> = Mutex::new(OverlapHistories { instances: 0, runs: 0, violation: None, samples: vec![], hashes: vec![] });
    let fns: Vec<TestFn> = (0..5).map(|id| TestFn { id, reads: vec![], writes: if id == 4 { vec![0] } else { vec![] } }).collect();
    // 0 -> 1 -> 2, 0 -> 3, 4 alone
    let spec = GraphSpec { fns, edges: vec![(0, 1, Kind::Logic), (1, 2, Kind::Contains), (0, 3, Kind::Logic)], batches: vec![], add_mode: 0 };
    let shapes = [Shape::Stream, Shape::ForEach, Shape::Fold];
    // big graphs (more than 1024 functions): a run suspended after its first poll must
    // not hold anything another run needs, whatever set-up work the size triggers
    let big_n = 1030 + (seed % 7) as usize;
    let big_fns: Vec<TestFn> = (0..big_n).map(|id| TestFn { id, reads: vec![], writes: vec![] }).collect();
    let big_specs = [
        GraphSpec { fns: big_fns.clone(), edges: (1..big_n).map(|i| ((i - 1) / 8, i, if i % 3 == 0 { Kind::Contains } else { Kind::Logic })).collect(), batches: vec![], add_mode: 0 },
        GraphSpec { fns: big_fns, edges: (0..big_n / 2).map(|i| (i, big_n - 1 - i, Kind::Logic)).collect(), batches: vec![], add_mode: 0 },
    ];
    std::thread::scope(|sc| {
        for (bi, spec) in big_specs.iter().enumerate() {
            for (si, shape) in shapes.into_iter().enumerate() {
                for rev in [false, true] {
                    let res = &res;
                    let a_cfg = overlap_base(shape, rev, spec.n());
                    sc.spawn(move || {
                        let k = 6u64;
                        let (viol, runs, ret) = eval_overlap(spec, &a_cfg, k);
                        let mut r = res.lock().unwrap();
                        r.instances += 1;
                        r.runs += runs + 1;
                        r.hashes.push(hash_of(&(k, si, bi, rev, 1u8)));
                        if r.violation.is_none() {
                            if let Some(x) = viol.into_iter().find(|x| x.prop == "C20") {
                                let dec = json!({"kind": "overlap-history", "spec": spec, "a_cfg": a_cfg, "other_runs": k});
                                r.violation = Some((x, dec));
                            }
                        }
                        let _ = ret;
                    });
                }
            }
        }
        for (ki, k) in [255u64, 256, 65_535, 65_536].into_iter().enumerate() {
            for (si, shape) in shapes.into_iter().enumerate() {
                let res = &res;
                let spec = &spec;
                let a_cfg = overlap_base(shape, (seed as usize + ki + si) % 2 == 1, 5);
                // the other runs: complete at once, alternating API and order
                sc.spawn(move || {
                    let (viol, runs, ret) = eval_overlap(spec, &a_cfg, k);
                    let mut r = res.lock().unwrap();
                    r.instances += 1;
                    r.runs += runs + 1;
                    r.hashes.push(hash_of(&(k, si)));
                    if r.samples.len() < 2 {
                        r.samples.push(json!({"run_a": a_cfg.api.name(), "other_runs_during_a": k, "ret": ret.label()}));
                    }
                    if r.violation.is_none() {
                        if let Some(x) = viol.into_iter().find(|x| x.prop == "C20") {
                            let dec = json!({"kind": "overlap-history", "spec": spec, "a_cfg": a_cfg, "other_runs": k});
                            r.violation = Some((x, dec));
                        }
                    }
                });
            }
        }
    });
    res.into_inner().unwrap()
}
