//! Watchdog for `FnGraphBuilder::build()` calls of the code under test.
//!
//! `build()` cannot be interrupted.  A change that makes it exponential would
//! otherwise keep a check busy for hours (every shrink candidate is another such
//! build).  Each thread that builds publishes the spec it is building in a
//! per-thread slot; a monitor thread samples the *CPU clock of that thread* four
//! times a second and, when one and the same build has consumed more than
//! `HARD_CAP_S` seconds of CPU, hands the spec to the callback (which reports and
//! ends the process).  CPU time of the building thread, not wall time: a thread
//! that is descheduled on a loaded machine does not advance.  The cap is four
//! orders of magnitude above what the largest generated build needs on the
//! unchanged tree (milliseconds).
use std::sync::atomic::{AtomicBool, Ordering};
use std::sync::{Arc, Mutex, OnceLock};

use crate::model::GraphSpec;

/// CPU seconds one `build()` may use before the watchdog ends the process.
pub const HARD_CAP_S: f64 = 60.0;

struct SlotState {
    /// Spec of the build in progress (null: none).  Only dereferenced by the
    /// monitor while it holds the slot's mutex; the builder clears it under the
    /// same mutex before the borrow ends.
    spec: *const GraphSpec,
    generation: u64,
}
// SAFETY: the pointer is only dereferenced under the mutex while the builder
// thread keeps the `&GraphSpec` alive (see `Guard`).
unsafe impl Send for SlotState {}

struct Slot {
    clock: libc::clockid_t,
    state: Mutex<SlotState>,
}

static SLOTS: OnceLock<Mutex<Vec<Arc<Slot>>>> = OnceLock::new();
static STARTED: AtomicBool = AtomicBool::new(false);

thread_local! {
    static MY_SLOT: Arc<Slot> = {
        let mut clock: libc::clockid_t = 0;
        // SAFETY: plain libc call on the current thread.
        unsafe { libc::pthread_getcpuclockid(libc::pthread_self(), &mut clock); }
        let s = Arc::new(Slot { clock, state: Mutex::new(SlotState { spec: std::ptr::null(), generation: 0 }) });
        SLOTS.get_or_init(|| Mutex::new(vec![])).lock().unwrap().push(s.clone());
        s
    };
}

/// Marks "a build of `spec` is in progress on this thread" until dropped.
pub struct Guard<'a> {
    slot: Option<Arc<Slot>>,
    _spec: std::marker::PhantomData<&'a GraphSpec>,
}

pub fn build_guard(spec: &GraphSpec) -> Guard<'_> {
    if !STARTED.load(Ordering::Relaxed) {
        return Guard { slot: None, _spec: std::marker::PhantomData };
    }
    let slot = MY_SLOT.with(|s| s.clone());
    {
        let mut st = slot.state.lock().unwrap_or_else(|e| e.into_inner());
        st.spec = spec as *const GraphSpec;
        st.generation += 1;
    }
    Guard { slot: Some(slot), _spec: std::marker::PhantomData }
}

impl Drop for Guard<'_> {
    fn drop(&mut self) {
        if let Some(slot) = &self.slot {
            let mut st = slot.state.lock().unwrap_or_else(|e| e.into_inner());
            st.spec = std::ptr::null();
            st.generation += 1;
        }
    }
}

fn clock_s(clock: libc::clockid_t) -> Option<f64> {
    let mut ts = libc::timespec { tv_sec: 0, tv_nsec: 0 };
    // SAFETY: plain syscall writing into a local struct.
    let r = unsafe { libc::clock_gettime(clock, &mut ts) };
    if r != 0 {
        return None; // the thread has ended
    }
    Some(ts.tv_sec as f64 + ts.tv_nsec as f64 * 1e-9)
}

/// Starts the monitor (once per process).  `on_trip(spec, cpu_seconds)` is called on
/// the monitor thread while the build is still running and is expected not to return.
pub fn start(on_trip: impl Fn(&GraphSpec, f64) + Send + 'static) {
    if STARTED.swap(true, Ordering::SeqCst) {
        return;
    }
    std::thread::spawn(move || {
        // per slot: (generation seen, CPU clock value when that generation was first seen)
        let mut seen: Vec<(u64, f64)> = vec![];
        loop {
            std::thread::sleep(std::time::Duration::from_millis(250));
            let slots: Vec<Arc<Slot>> = SLOTS.get_or_init(|| Mutex::new(vec![])).lock().unwrap().clone();
            seen.resize(slots.len(), (0, 0.0));
            for (i, slot) in slots.iter().enumerate() {
                let Some(now) = clock_s(slot.clock) else { continue };
                let st = slot.state.lock().unwrap_or_else(|e| e.into_inner());
                if st.spec.is_null() || st.generation != seen[i].0 {
                    seen[i] = (st.generation, now);
                    continue;
                }
                let used = now - seen[i].1;
                if used > HARD_CAP_S {
                    // SAFETY: non-null under the mutex => the builder thread is inside the
                    // build and cannot clear the slot (nor end the borrow) before we unlock.
                    let spec: &GraphSpec = unsafe { &*st.spec };
                    on_trip(spec, used);
                    seen[i] = (st.generation, now);
                }
            }
        }
    });
}
