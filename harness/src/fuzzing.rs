//! Glue between libFuzzer byte strings and the same checks that proptest
//! drives: bytes -> tapes -> decoded case -> oracles.  Only the property named
//! by `FG_PROP` is fatal, so a campaign for one property is not stopped by
//! another one.  Statistics (executions, distinct non-trivial cases) are
//! written to `$FG_FUZZ_STATS.<pid>` every 2048 executions.

use std::cell::RefCell;
use std::collections::HashSet;

use crate::builder::BuildCheck;
use crate::driver::{CaseReport, Check};
use crate::seq::SeqCheck;
use crate::single::SingleCheck;
use crate::tape::tapes_from_bytes;

pub fn prop() -> &'static str {
    thread_local! { static P: &'static str = Box::leak(std::env::var("FG_PROP").unwrap_or_else(|_| "C04".into()).into_boxed_str()); }
    P.with(|p| *p)
}

pub fn check_for(target: &str, prop: &'static str) -> (Box<dyn Check>, usize) {
    match (target, prop) {
        ("builder", "C16") => (Box::new(SeqCheck { max_fns: 8, max_ops: 40 }), 1),
        ("builder", _) => (Box::new(BuildCheck::new(prop, true, None)), 2),
        (_, _) => (Box::new(SingleCheck::new(prop, true)), 3),
    }
}

struct State {
    check: Box<dyn Check>,
    n_tapes: usize,
    execs: u64,
    nontrivial: HashSet<u64>,
    target: String,
}

thread_local! { static STATE: RefCell<Option<State>> = const { RefCell::new(None) }; }

pub fn run_bytes(target: &str, prop: &'static str, data: &[u8], want_decoded: bool) -> CaseReport {
    let (check, k) = check_for(target, prop);
    let tapes = tapes_from_bytes(data, k);
    check.run_case(&tapes, want_decoded)
}

fn dump(st: &State) {
    if let Ok(p) = std::env::var("FG_FUZZ_STATS") {
        let _ = std::fs::write(
            format!("{p}.{}", std::process::id()),
            format!(
                "{{\"target\":\"{}\",\"executions\":{},\"distinct_nontrivial\":{}}}",
                st.target,
                st.execs,
                st.nontrivial.len()
            ),
        );
    }
}

pub fn one_input(target: &str, data: &[u8]) {
    let p = prop();
    STATE.with(|s| {
        let mut s = s.borrow_mut();
        if s.is_none() {
            // libfuzzer-sys installs a panic hook that aborts the process; panics of
            // the code under test (and the harness's own contained panics) are caught
            // and judged by the engines, so the hook is replaced by a silent one.  A
            // panic that escapes `one_input` still aborts (libfuzzer-sys wraps the
            // target in catch_unwind + abort), which is how a violation is reported.
            std::panic::set_hook(Box::new(|_| {}));
            let (check, n_tapes) = check_for(target, p);
            *s = Some(State {
                check,
                n_tapes,
                execs: 0,
                nontrivial: HashSet::new(),
                target: target.to_string(),
            });
        }
        let st = s.as_mut().unwrap();
        let tapes = tapes_from_bytes(data, st.n_tapes);
        let rep = st.check.run_case(&tapes, false);
        st.execs += 1;
        if rep.nontrivial {
            st.nontrivial.insert(rep.hash);
        }
        if st.execs % 2048 == 0 {
            dump(st);
        }
        if let Some(v) = rep.violations.iter().find(|v| v.prop == p) {
            dump(st);
            // libFuzzer saves the input as a crash artifact
            panic!("VIOLATION of {p}: {}: {}", v.kind, v.msg);
        }
    });
}
