//! Types shared by every build configuration of the harness (with and without
//! fn_graph's `async` feature).

use std::collections::hash_map::DefaultHasher;
use std::hash::{Hash, Hasher};

use serde::{Deserialize, Serialize};

/// fn_graph is built with the `interruptible` feature.
pub const INTR: bool = cfg!(feature = "intr");
/// fn_graph is built with its default `async` feature (the streaming API exists).
pub const ASYNC: bool = cfg!(feature = "async_apis");

#[derive(Clone, Debug, PartialEq, Eq, Serialize, Deserialize)]
pub struct Violation {
    pub prop: String,
    pub kind: String,
    pub msg: String,
}

pub fn hash_of<T: Hash>(t: &T) -> u64 {
    let mut h = DefaultHasher::new();
    t.hash(&mut h);
    h.finish()
}
