//! Exhaustive small-scope tier for the run-time properties: for every DAG on
//! n <= N functions x access declaration over one data type x API x option
//! combination, **every** schedule is enumerated (depth-first over the
//! stepper's options, with a bounded number of spurious polls), and all
//! single-run oracles are evaluated on every complete run.  This turns "every
//! order in which in-flight user futures complete and the call is polled" from
//! a sampled into an enumerated quantifier for tiny graphs.

use std::sync::atomic::{AtomicBool, AtomicU64, Ordering};
use std::sync::Mutex;

use serde_json::Value;

use crate::builder::for_each_dag;
use crate::cases::{run_on, Schedule, SingleCase};
use crate::explore::{Act, Consumer, GRef, Runner, Stepper, INTR};
use crate::gen::{Api, RunCfg, Shape, Strat};
use crate::model::{build_graph, GraphFacts, GraphSpec, Kind, TestFn};
use crate::oracle::Violation;
use crate::single::{self, decoded_json, profile_for};

pub struct ExhaustResult {
    pub configs: u64,
    pub runs: u64,
    pub nontrivial: u64,
    pub violation: Option<(Violation, Value)>,
    pub description: String,
    pub samples: Vec<Value>,
    pub max_depth: usize,
    pub complete: bool,
}

fn specs(max_n: usize) -> Vec<GraphSpec> {
    let mut out = vec![];
    for n in 0..=max_n {
        for_each_dag(n, |edges| {
            for a in 0..3usize.pow(n as u32) {
                let mut x = a;
                let fns: Vec<TestFn> = (0..n)
                    .map(|id| {
                        let c = x % 3;
                        x /= 3;
                        TestFn {
                            id,
                            reads: if c == 1 { vec![0] } else { vec![] },
                            writes: if c == 2 { vec![0] } else { vec![] },
                        }
                    })
                    .collect();
                out.push(GraphSpec {
                    fns,
                    edges: edges
                        .iter()
                        .enumerate()
                        .map(|(i, (a, b))| (*a, *b, if i % 2 == 0 { Kind::Logic } else { Kind::Contains }))
                        .collect(),
                    batches: vec![],
            add_mode: 0,
                });
            }
            true
        });
    }
    out
}

fn cfgs_for(prop: &str, n: usize) -> Vec<RunCfg> {
    let profile = profile_for(prop, false);
    let mut apis: Vec<Api> = profile.apis.iter().map(|a| a.0).collect();
    apis.sort_by_key(|a| (a.shape, a.with));
    apis.dedup();
    let mut out = vec![];
    for api in apis {
        let revs: &[bool] = if api.with { &[false, true] } else { &[false] };
        let limits: Vec<Option<usize>> = if !api.shape.is_concurrent() {
            vec![None]
        } else if !profile.limits {
            vec![None]
        } else if profile.force_limit {
            vec![Some(1), Some(2)]
        } else {
            vec![None, Some(1), Some(2)]
        };
        let strats: Vec<(Strat, bool)> = if INTR && api.with && profile.interrupts && api.shape != Shape::Stream {
            let mut s = vec![];
            if !profile.only_effective_strats {
                s.push((Strat::NonInterruptible, true));
                s.push((Strat::IgnoreInterruptions, true));
            }
            for inc in [true, false] {
                s.push((Strat::FinishCurrent, inc));
                s.push((Strat::PollNextN(1), inc));
            }
            s.push((Strat::PollNextN(0), false));
            s
        } else {
            vec![(Strat::NonInterruptible, true)]
        };
        let mut failing_sets: Vec<Vec<usize>> = vec![vec![]];
        if api.shape.is_try() && profile.pct_failing > 0 {
            for i in 0..n {
                failing_sets.push(vec![i]);
            }
            if n >= 2 {
                failing_sets.push((0..n).collect());
            }
        }
        for &rev in revs {
            for &limit in &limits {
                for &(strat, include) in &strats {
                    for failing in &failing_sets {
                        out.push(RunCfg {
                            api,
                            rev,
                            limit,
                            strat,
                            include,
                            failing: failing.clone(),
                            yields: vec![0; n],
                            abort_after: None,
                            instant: vec![],
                            coop: false,
                            drop_sender: false,
                            pre_interrupted: 0,
                            on_clone: false,
                            unwind: vec![],
                            rev_again: 0,
                            opts_order: 0,
                        });
                    }
                }
            }
        }
    }
    out
}

/// Replays `prefix` and reports (finished, options, wants_poll).
fn probe(spec: &GraphSpec, cfg: &RunCfg, prefix: &[Act]) -> (bool, Vec<Act>, bool) {
    let mut g = build_graph(spec);
    fn go(s: &mut dyn Stepper, prefix: &[Act]) -> (bool, Vec<Act>, bool) {
        for a in prefix {
            if s.done() || !s.apply(*a) {
                return (true, vec![], false);
            }
        }
        if s.done() || s.stuck() {
            return (true, vec![], false);
        }
        (false, s.options(), s.wants_poll())
    }
    if cfg.api.shape.is_stream() {
        let mut c = Consumer::new(&g, cfg);
        go(&mut c, prefix)
    } else {
        let mut r = Runner::new(GRef::Mut(&mut g), cfg);
        go(&mut r, prefix)
    }
}

struct Walk<'a> {
    prop: &'a str,
    spec: &'a GraphSpec,
    cfg: &'a RunCfg,
    max_spurious: usize,
    max_depth: usize,
    runs: u64,
    nontrivial: u64,
    deepest: usize,
    truncated: bool,
    found: Option<(Violation, Value)>,
    sample: Option<Value>,
    want_sample: bool,
    /// Exploration budget of the whole tier (see `exhaustive_schedules`).
    deadline: std::time::Instant,
    out_of_budget: bool,
}

impl Walk<'_> {
    fn leaf(&mut self, prefix: &[Act]) {
        let mut g = build_graph(self.spec);
        let facts = GraphFacts::new(self.spec, &g);
        let mut r = run_on(&mut g, facts, self.cfg, Schedule::Strict(prefix));
        if self.prop == "C06" {
            let extra = crate::oracle::structural_c06(&r.facts);
            r.violations.extend(extra);
        }
        self.runs += 1;
        self.deepest = self.deepest.max(prefix.len());
        if single::nontrivial(self.prop, self.cfg, &r) {
            self.nontrivial += 1;
        }
        let case = SingleCase {
            spec: self.spec.clone(),
            cfg: self.cfg.clone(),
            acts: r.acts.clone(),
            pre: None,
        };
        if self.prop == "C08" {
            let extra = single::ignore_differential(&case, &r);
            r.violations.extend(extra);
        }
        if self.want_sample && self.sample.is_none() && prefix.len() >= 3 {
            self.sample = Some(decoded_json(&case, &r));
        }
        if let Some(v) = r.violations.iter().find(|v| v.prop == self.prop) {
            self.found = Some((v.clone(), decoded_json(&case, &r)));
        }
    }

    fn dfs(&mut self, prefix: &mut Vec<Act>, spurious: usize) {
        if self.found.is_some() || self.out_of_budget {
            return;
        }
        if self.runs % 256 == 255 && std::time::Instant::now() > self.deadline {
            self.out_of_budget = true;
            return;
        }
        let (finished, options, wants_poll) = probe(self.spec, self.cfg, prefix);
        if finished {
            self.leaf(prefix);
            return;
        }
        if prefix.len() >= self.max_depth {
            self.truncated = true;
            self.leaf(prefix);
            return;
        }
        for a in options {
            let is_spurious = a == Act::Poll && !wants_poll;
            if is_spurious && spurious >= self.max_spurious {
                continue;
            }
            prefix.push(a);
            self.dfs(prefix, spurious + is_spurious as usize);
            prefix.pop();
            if self.found.is_some() || self.out_of_budget {
                return;
            }
        }
    }
}

/// `budget_s`: exploration budget of the tier.  On the unchanged tree the tier needs a
/// small fraction of it; a change that lets runs go on for ever (a stream that never
/// ends) multiplies the schedules of every configuration, and the walk would take
/// hours.  When the budget is used up the walk stops, the sub-space is reported as
/// *not complete*, nothing is reported as a violation, and the check goes on with its
/// other tiers.
pub fn exhaustive_schedules(prop: &str, max_n: usize, max_spurious: usize, workers: usize, budget_s: u64) -> ExhaustResult {
    let specs = specs(max_n);
    let deadline = std::time::Instant::now() + std::time::Duration::from_secs(budget_s);
    let out_of_budget = AtomicBool::new(false);
    let configs = AtomicU64::new(0);
    let runs = AtomicU64::new(0);
    let nontrivial = AtomicU64::new(0);
    let deepest = AtomicU64::new(0);
    let truncated = AtomicBool::new(false);
    let stop = AtomicBool::new(false);
    let found: Mutex<Option<(Violation, Value)>> = Mutex::new(None);
    let samples: Mutex<Vec<Value>> = Mutex::new(vec![]);
    let next = AtomicU64::new(0);
    std::thread::scope(|sc| {
        for _ in 0..workers.max(1) {
            sc.spawn(|| loop {
                let i = next.fetch_add(1, Ordering::Relaxed) as usize;
                if i >= specs.len() || stop.load(Ordering::Relaxed) {
                    return;
                }
                let spec = &specs[i];
                for cfg in cfgs_for(prop, spec.n()) {
                    if stop.load(Ordering::Relaxed) {
                        return;
                    }
                    let c = configs.fetch_add(1, Ordering::Relaxed);
                    let mut w = Walk {
                        prop,
                        spec,
                        cfg: &cfg,
                        max_spurious,
                        max_depth: 6 * spec.n() + 8,
                        runs: 0,
                        nontrivial: 0,
                        deepest: 0,
                        truncated: false,
                        found: None,
                        sample: None,
                        want_sample: matches!(c, 50 | 2000 | 40_000),
                        deadline,
                        out_of_budget: false,
                    };
                    let mut prefix = vec![];
                    w.dfs(&mut prefix, 0);
                    runs.fetch_add(w.runs, Ordering::Relaxed);
                    nontrivial.fetch_add(w.nontrivial, Ordering::Relaxed);
                    deepest.fetch_max(w.deepest as u64, Ordering::Relaxed);
                    if w.truncated {
                        truncated.store(true, Ordering::Relaxed);
                    }
                    if w.out_of_budget {
                        out_of_budget.store(true, Ordering::Relaxed);
                        stop.store(true, Ordering::Relaxed);
                    }
                    if let Some(s) = w.sample {
                        samples.lock().unwrap().push(s);
                    }
                    if let Some(f) = w.found {
                        stop.store(true, Ordering::Relaxed);
                        let mut g = found.lock().unwrap();
                        if g.is_none() {
                            *g = Some(f);
                        }
                        return;
                    }
                }
            });
        }
    });
    let violation = found.into_inner().unwrap();
    let trunc = truncated.into_inner();
    let oob = out_of_budget.into_inner();
    ExhaustResult {
        configs: configs.into_inner(),
        runs: runs.into_inner(),
        nontrivial: nontrivial.into_inner(),
        complete: violation.is_none() && !trunc && !oob,
        violation,
        description: format!(
            "every schedule (all completion / poll / signal orders, <= {max_spurious} spurious poll per run{}) of every API x option combination of this property's profile on all {} graph specs with n <= {max_n} functions (all labelled DAGs x {{none, read, write}} of one data type per function); {} build",
            if oob { ", STOPPED when the exploration budget was used up: NOT complete" } else if trunc { ", TRUNCATED at the depth bound" } else { "" },
            specs.len(),
            if INTR { "intr" } else { "plain" }
        ),
        samples: samples.into_inner().unwrap(),
        max_depth: deepest.into_inner() as usize,
    }
}
