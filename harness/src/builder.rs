//! Builder / iterator / GraphInfo properties (C11–C14, C16–C18): oracles over
//! the built graph, a random generator of arbitrary builder call sequences and
//! exhaustive enumerators of small sub-spaces.

use std::panic::{catch_unwind, AssertUnwindSafe};

use fn_graph::{FnGraph, FnGraphBuilder, FnId, GraphInfo};
use serde::{Deserialize, Serialize};
use serde_json::{json, Value};

use crate::driver::{CaseReport, Check};
use crate::model::{
    access_calls, access_calls_reset, built_edges, conflict, ref_data_edges, ref_ranks,
    root_path_count, user_edges, BitMat, GraphSpec, Kind, TestFn, N_TYPES, N_TYPES_MAX,
};
use crate::violation::Violation;
use crate::violation::hash_of;
use crate::tape::Tape;

fn v(prop: &str, kind: &str, msg: String) -> Violation {
    Violation {
        prop: prop.into(),
        kind: kind.into(),
        msg,
    }
}

/// Decoded builder case.
#[derive(Clone, Debug, PartialEq, Eq, Hash, Serialize, Deserialize)]
pub struct BuildCase {
    pub spec: GraphSpec,
    /// C14: position (0-based) of the failing closure invocation.
    pub fail_pos: usize,
    /// C12: a single mutation of the call sequence.
    pub mutation: Option<Mutation>,
    /// C17: node labels.
    pub labels: Vec<String>,
    /// C14: sequence of sequential walks performed on the *same* graph value
    /// (empty = the canonical sequence).
    #[serde(default)]
    pub walks: Vec<Walk>,
}

/// One sequential walk over the graph (C14).
#[derive(Clone, Debug, PartialEq, Eq, Hash, Serialize, Deserialize)]
pub enum Walk {
    Iter,
    IterRev,
    Topo,
    MapFull,
    /// `map()` iterator polled this many times (< n), then dropped.
    MapPartial(usize),
    Fold,
    ForEach,
    TryFoldOk,
    /// `try_fold` whose closure fails at this (0-based) invocation.
    TryFoldFail(usize),
    TryForEachOk,
    TryForEachFail(usize),
    Insertion,
    /// `iter()` / `iter_rev()` advanced this many times (< n), then dropped.
    IterPartial(usize, bool),
    /// `for_each` (false) / `fold` (true) whose closure panics at this invocation;
    /// the caller catches the panic and goes on using the graph.
    PanicIn(usize, bool),
    /// Two walks alive at once: `iter()` and `iter_rev()` advanced in lock step
    /// (`iter().zip(iter_rev())`), a second `iter()` started when the first is
    /// half way.
    Interleaved,
}

pub fn canonical_walks(fail_pos: usize) -> Vec<Walk> {
    vec![
        Walk::Iter,
        Walk::IterRev,
        Walk::Topo,
        Walk::MapFull,
        Walk::Fold,
        Walk::ForEach,
        Walk::TryFoldOk,
        Walk::TryForEachOk,
        Walk::Insertion,
        Walk::Interleaved,
        Walk::TryFoldFail(fail_pos),
        Walk::TryForEachFail(fail_pos),
    ]
}

#[derive(Clone, Debug, PartialEq, Eq, Hash, Serialize, Deserialize)]
pub enum Mutation {
    FnId(usize, usize),
    FnAccess(usize, Vec<u8>, Vec<u8>),
    EdgeFrom(usize, usize),
    EdgeTo(usize, usize),
    EdgeKind(usize),
    /// Add a call repeating pair `i` (possibly with another kind) at the end.
    RepeatCall(usize, bool),
}

pub fn apply_mutation(spec: &GraphSpec, m: &Mutation) -> GraphSpec {
    let mut s = spec.clone();
    match m {
        Mutation::FnId(i, id) => s.fns[*i].id = *id,
        Mutation::FnAccess(i, r, w) => {
            s.fns[*i].reads = r.clone();
            s.fns[*i].writes = w.clone();
        }
        Mutation::EdgeFrom(i, a) => s.edges[*i].0 = *a,
        Mutation::EdgeTo(i, b) => s.edges[*i].1 = *b,
        Mutation::EdgeKind(i) => {
            s.edges[*i].2 = match s.edges[*i].2 {
                Kind::Logic => Kind::Contains,
                _ => Kind::Logic,
            }
        }
        Mutation::RepeatCall(i, flip) => {
            let mut e = s.edges[*i];
            if *flip {
                e.2 = if e.2 == Kind::Logic {
                    Kind::Contains
                } else {
                    Kind::Logic
                };
            }
            s.edges.push(e);
        }
    }
    s
}

/// Arbitrary builder call sequence: self edges, reversed and repeated pairs.
pub fn decode_build_case(t: &mut Tape, x: &mut Tape, max_n: usize, cap: Option<u64>, force_n: Option<usize>) -> BuildCase {
    // one case in twenty-four is large (65..=120 functions) with sparse access
    // declarations and sparse edges: few conflicts in a big graph
    let large = force_n.is_some() || (max_n >= 24 && t.chance(1, 24));
    if large {
        t.enable_tail();
    }
    let n = if let Some(n) = force_n {
        n
    } else if large {
        // one large case in twelve is beyond 256 functions (counts that do not fit a byte)
        if t.chance(1, 12) {
            [255usize, 256, 257][t.below(3)] + if t.chance(1, 2) { 0 } else { t.below(44) }
        } else if t.chance(1, 5) {
            // exactly at a power-of-two boundary
            [63usize, 64, 65, 127, 128, 129][t.below(6)]
        } else {
            41 + t.below(80)
        }
    } else if t.chance(1, 12) {
        9 + t.below(max_n.saturating_sub(8).max(1))
    } else {
        t.below(9.min(max_n + 1))
    };
    // one case in eight uses the large type universe with dense declarations, so
    // that functions declare more than 8 accesses (mixed reads and writes)
    let many = !large && t.chance(1, 8);
    let n_types = if large {
        1 + t.below(3) as u8
    } else if many {
        // 9..=24 types usually, sometimes the whole universe (more than 64 types)
        if t.chance(1, 4) {
            65 + t.below((N_TYPES_MAX - 64) as usize) as u8
        } else {
            9 + t.below(16) as u8
        }
    } else {
        1 + t.below(N_TYPES as usize) as u8
    };
    let den = if large {
        [12usize, 24, 48, 96][t.below(4)]
    } else if many {
        [3usize, 2, 3, 4][t.below(4)]
    } else {
        [4usize, 3, 6, 10][t.below(4)]
    };
    let mut fns = Vec::with_capacity(n);
    for id in 0..n {
        let mut reads = vec![];
        let mut writes = vec![];
        for ty in 0..n_types {
            let r = t.below(den);
            if r == den - 1 {
                writes.push(ty);
            } else if r == den - 2 || (many && den == 2 && r == 0) {
                reads.push(ty);
            }
        }
        if many && t.chance(1, 2) {
            // declaration order is the caller's business: not sorted
            reads.reverse();
            let k = t.below(writes.len().max(1));
            writes.rotate_left(k);
        }
        if t.chance(1, 30) {
            let ty = t.below(n_types as usize) as u8;
            match t.below(3) {
                0 => {
                    reads.push(ty);
                    writes.push(ty);
                }
                1 => {
                    writes.push(ty);
                    writes.push(ty);
                }
                _ => {
                    reads.push(ty);
                    reads.push(ty);
                }
            }
        }
        fns.push(TestFn { id, reads, writes });
    }
    let mut pos: Vec<usize> = (0..n).collect();
    for i in (1..n).rev() {
        let j = t.below(i + 1);
        pos.swap(i, j);
    }
    let mut edges = vec![];
    // "late attach": a multi-path pipeline is declared first, then a chain, then the
    // chain's end is attached above the pipeline's start (one insertion that raises
    // the rank of a whole declared sub-graph), then a few more edges.  Adversarial
    // for anything that maintains ranks / reachability incrementally.
    let late_attach = n >= 12 && t.chance(1, 3);
    if late_attach {
        // label[i] = function id of logical node i
        let label: Vec<usize> = {
            let mut l: Vec<usize> = (0..n).collect();
            l.sort_by_key(|v| pos[*v]);
            l
        };
        let chain_len = 3 + t.below((n / 3).max(1));
        let mut next = chain_len; // logical ids: 0..chain_len = chain, rest = pipeline
        let mut pipe: Vec<(usize, usize)> = vec![];
        let mut step = next;
        next += 1;
        let first_step = step;
        while next + 3 < n {
            let to = next;
            next += 1;
            let paths = 1 + t.below(3);
            let short_first = t.chance(1, 2);
            let mut seg: Vec<(usize, usize)> = vec![(step, to)];
            for k in 1..paths {
                // a path of k intermediate "check" functions
                let mut prev = step;
                for _ in 0..k {
                    if next >= n {
                        break;
                    }
                    seg.push((prev, next));
                    prev = next;
                    next += 1;
                }
                seg.push((prev, to));
            }
            if !short_first {
                seg.reverse();
            }
            pipe.extend(seg);
            step = to;
        }
        let k = |t: &mut Tape| if t.chance(1, 2) { Kind::Contains } else { Kind::Logic };
        for (a, b) in pipe {
            if a != b {
                edges.push((label[a], label[b], k(t)));
            }
        }
        for i in 0..chain_len - 1 {
            edges.push((label[i], label[i + 1], k(t)));
        }
        edges.push((label[chain_len - 1], label[first_step], k(t)));
        for _ in 0..t.below(3) {
            let a = t.below(n);
            let b = t.below(n);
            if a < b {
                edges.push((label[a], label[b], k(t)));
            }
        }
    } else if large && t.chance(1, 4) {
        // fan: one hub before (or one sink after) every other function, beyond 255
        // edges at one function for the biggest cases
        let hub = t.below(n);
        let out = t.chance(1, 2);
        // most functions are the fan's leaves; a few stay outside and become the hub's
        // other side (successors of a fan-in hub / predecessors of a fan-out hub), and
        // a few chains among the leaves give them different ranks
        let outside: Vec<usize> = (0..n).filter(|v| *v != hub && t.chance(1, 24)).collect();
        let leaves: Vec<usize> = (0..n).filter(|v| *v != hub && !outside.contains(v)).collect();
        let kind = |t: &mut Tape| if t.chance(1, 2) { Kind::Contains } else { Kind::Logic };
        for _ in 0..t.below(6) {
            // a chain of 2..=12 leaves
            let len = 2 + t.below(11);
            let start = t.below(leaves.len().max(1));
            let chain: Vec<usize> = leaves.iter().copied().cycle().skip(start).step_by(1 + t.below(5)).take(len).collect();
            for w in chain.windows(2) {
                if w[0] != w[1] {
                    let k = kind(t);
                    edges.push((w[0], w[1], k));
                }
            }
        }
        let mut star: Vec<(usize, usize, Kind)> = vec![];
        for &v in &leaves {
            let k = kind(t);
            star.push(if out { (hub, v, k) } else { (v, hub, k) });
        }
        // declaration order of the fan's edges: as is, reversed, or rotated
        match t.below(3) {
            0 => {}
            1 => star.reverse(),
            _ => {
                let r = t.below(star.len().max(1));
                star.rotate_left(r);
            }
        }
        // chains first or fan first
        if t.chance(1, 2) {
            edges.extend(star);
        } else {
            let chains = std::mem::take(&mut edges);
            edges.extend(star);
            edges.extend(chains);
        }
        for &v in &outside {
            let k = kind(t);
            edges.push(if out { (v, hub, k) } else { (hub, v, k) });
        }
    } else if n >= 1 {
        let max_m = if large {
            [n / 4, n / 2, n, n / 8][t.below(4)]
        } else {
            [n, n / 2, 2 * n, n * n.saturating_sub(1) / 2 + 2][t.below(4)]
        };
        let m = t.below(max_m + 1);
        // fraction of calls that ignore the hidden order (cycle attempts, self edges)
        let wild = [0usize, 8, 3, 1][t.below(4)];
        for _ in 0..m {
            let a = t.below(n);
            let b = t.below(n);
            let k = if t.chance(1, 2) {
                Kind::Contains
            } else {
                Kind::Logic
            };
            let arbitrary = wild > 0 && t.below(wild) == wild - 1;
            if arbitrary || a == b {
                if arbitrary {
                    edges.push((a, b, k));
                }
            } else if pos[a] < pos[b] {
                edges.push((a, b, k));
            } else {
                edges.push((b, a, k));
            }
            if !edges.is_empty() && t.chance(1, 10) {
                // repeat an earlier pair, maybe with another kind
                let i = t.below(edges.len());
                let mut e = edges[i];
                if t.chance(1, 2) {
                    e.2 = if e.2 == Kind::Logic {
                        Kind::Contains
                    } else {
                        Kind::Logic
                    };
                }
                edges.push(e);
            }
        }
    }
    // batch calls after the single ones: existing pairs, new forward pairs and
    // cycle-closing (reversed) pairs at any position of the batch
    let mut batches: Vec<(Vec<(usize, usize)>, Kind)> = vec![];
    if n >= 2 && t.chance(1, 5) {
        for _ in 0..1 + t.below(2) {
            let len = t.below(4);
            let mut pairs = vec![];
            for _ in 0..len {
                let c = t.below(4);
                let pair = if c == 0 && !edges.is_empty() {
                    let e = edges[t.below(edges.len())];
                    (e.0, e.1)
                } else if c == 1 && !edges.is_empty() {
                    let e = edges[t.below(edges.len())];
                    (e.1, e.0)
                } else {
                    let a = t.below(n);
                    let b = t.below(n);
                    if c == 2 && a != b {
                        if pos[a] < pos[b] { (a, b) } else { (b, a) }
                    } else {
                        (a, b)
                    }
                };
                pairs.push(pair);
            }
            let k = if t.chance(1, 2) { Kind::Contains } else { Kind::Logic };
            batches.push((pairs, k));
        }
    }
    // one case in four inserts the functions through the batch form `add_fns`
    let add_mode = if t.chance(1, 4) { 1 + t.below(2) as u8 } else { 0 };
    let mut spec = GraphSpec { fns, edges, batches, add_mode };
    if let Some(cap) = cap {
        loop {
            let ue = user_edges(n, &spec.flat_calls()).edges;
            if root_path_count(n, &ue) <= cap {
                break;
            }
            spec.edges.pop();
        }
    }
    // extras
    let fail_pos = if n == 0 { 0 } else { x.below(n) };
    let mutation = if n == 0 {
        None
    } else {
        let ne = spec.edges.len();
        let kind = x.below(if ne > 0 { 6 } else { 2 });
        Some(match kind {
            0 => Mutation::FnId(x.below(n), n + x.below(3)),
            1 => {
                let i = x.below(n);
                let ty = x.below(n_types as usize) as u8;
                let (mut r, mut w) = (spec.fns[i].reads.clone(), spec.fns[i].writes.clone());
                if x.chance(1, 2) {
                    if let Some(p) = r.iter().position(|y| *y == ty) {
                        r.remove(p);
                    } else {
                        r.push(ty);
                    }
                } else if let Some(p) = w.iter().position(|y| *y == ty) {
                    w.remove(p);
                } else {
                    w.push(ty);
                }
                Mutation::FnAccess(i, r, w)
            }
            2 => Mutation::EdgeFrom(x.below(ne), x.below(n)),
            3 => Mutation::EdgeTo(x.below(ne), x.below(n)),
            4 => Mutation::EdgeKind(x.below(ne)),
            _ => Mutation::RepeatCall(x.below(ne), x.chance(1, 2)),
        })
    };
    let labels = (0..n)
        .map(|_| {
            let len = 1 + x.below(8);
            (0..len)
                .map(|_| (b'a' + x.below(26) as u8) as char)
                .collect::<String>()
        })
        .collect();
    let walks: Vec<Walk> = if n == 0 || x.chance(1, 3) {
        vec![]
    } else {
        let len = 2 + x.below(8);
        (0..len)
            .map(|_| match x.below(17) {
                13 => Walk::Interleaved,
                14 => Walk::IterPartial(x.below(n), x.chance(1, 2)),
                15 => Walk::PanicIn(x.below(n), x.chance(1, 2)),
                16 => Walk::IterPartial(x.below(n), x.chance(1, 2)),
                0 => Walk::Iter,
                1 => Walk::IterRev,
                2 => Walk::Topo,
                3 => Walk::MapFull,
                4 | 5 => Walk::MapPartial(x.below(n)),
                6 => Walk::Fold,
                7 => Walk::ForEach,
                8 => Walk::TryFoldOk,
                9 => Walk::TryFoldFail(x.below(n)),
                10 => Walk::TryForEachOk,
                11 => Walk::TryForEachFail(x.below(n)),
                _ => Walk::Insertion,
            })
            .collect()
    };
    BuildCase {
        spec,
        fail_pos,
        mutation,
        labels,
        walks,
    }
}

/// Build through the public API, recording per call acceptance and returned ids.
pub struct Built {
    pub g: FnGraph<TestFn>,
    pub ids_ok: bool,
    pub accepted: Vec<bool>,
    /// Per batch call: accepted as a whole?
    pub batch_ok: Vec<bool>,
    pub rank_visits: u64,
    pub access_calls: u64,
}

pub fn build_recorded(spec: &GraphSpec) -> Result<Built, String> {
    let r = catch_unwind(AssertUnwindSafe(|| {
        let mut b = FnGraphBuilder::new();
        let ids: Vec<FnId> = crate::model::add_all_fns(&mut b, spec);
        let ids_ok = ids.iter().enumerate().all(|(i, id)| id.index() == i);
        let mut accepted = Vec::with_capacity(spec.edges.len());
        for &(a, c, k) in &spec.edges {
            let r = match k {
                Kind::Logic => b.add_logic_edge(ids[a], ids[c]),
                Kind::Contains => b.add_contains_edge(ids[a], ids[c]),
                Kind::Data => unreachable!(),
            };
            accepted.push(r.is_ok());
        }
        let batch_ok = crate::model::apply_batches(&mut b, &ids, &spec.batches);
        fn_graph::verif_hooks::rank_calc_visits_reset();
        access_calls_reset();
        let g = {
            let _watched = crate::watch::build_guard(spec);
            b.build()
        };
        let rank_visits = fn_graph::verif_hooks::rank_calc_visits();
        Built {
            g,
            ids_ok,
            accepted,
            batch_ok,
            rank_visits,
            access_calls: access_calls(),
        }
    }));
    r.map_err(|p| {
        p.downcast_ref::<&str>()
            .map(|s| s.to_string())
            .or(p.downcast_ref::<String>().cloned())
            .unwrap_or_else(|| "<panic>".into())
    })
}

pub struct BuildFacts {
    pub n: usize,
    pub user: Vec<(usize, usize, Kind)>,
    pub built: Vec<(usize, usize, Kind)>,
    pub user_reach: BitMat,
    pub built_reach: BitMat,
    pub ranks: Vec<usize>,
    pub expect_data: Vec<(usize, usize)>,
}

impl BuildFacts {
    pub fn new(spec: &GraphSpec, g: &FnGraph<TestFn>) -> Self {
        let n = spec.n();
        let user = user_edges(n, &spec.flat_calls()).edges;
        let built = built_edges(g);
        let mut user_reach = BitMat::from_edges(n, user.iter().map(|e| (e.0, e.1)));
        user_reach.close();
        let mut built_reach = BitMat::from_edges(
            n,
            built
                .iter()
                .filter(|e| e.0 < n && e.1 < n)
                .map(|e| (e.0, e.1)),
        );
        built_reach.close();
        let ranks = ref_ranks(n, &user);
        let expect_data = ref_data_edges(spec, &user);
        BuildFacts {
            n,
            user,
            built,
            user_reach,
            built_reach,
            ranks,
            expect_data,
        }
    }
}

// ------------------------------------------------------------------ C11
pub fn check_c11(spec: &GraphSpec, b: &Built, f: &BuildFacts) -> Vec<Violation> {
    let mut out = vec![];
    let n = f.n;
    let g = &b.g;
    if !b.ids_ok {
        out.push(v("C11", "fn-id-mismatch", "add_fn did not return consecutive ids".into()));
    }
    if g.graph.node_count() != n {
        out.push(v(
            "C11",
            "node-count",
            format!("built graph has {} nodes, {} functions were added", g.graph.node_count(), n),
        ));
        return out;
    }
    for i in 0..n {
        if g.graph[FnId::new(i)] != spec.fns[i] {
            out.push(v("C11", "function-moved", format!("FnId {i} does not hold function {i}")));
        }
    }
    // acyclic
    if (0..n).any(|i| f.built_reach.get(i, i)) {
        out.push(v("C11", "cyclic", format!("built graph has a cycle: {:?}", f.built)));
    }
    // per-call acceptance agrees with the model
    let model = user_edges(n, &spec.edges);
    if model.accepted != b.accepted {
        out.push(v(
            "C11",
            "acceptance-differs-from-model",
            format!("accepted {:?} model {:?}", b.accepted, model.accepted),
        ));
    }
    {
        // batch calls: accepted as a whole iff no pair is rejected
        let mut calls = spec.edges.clone();
        let mut exp = vec![];
        for (pairs, k) in &spec.batches {
            let mut ok = true;
            for &(a, c) in pairs.iter().take(3) {
                calls.push((a, c, *k));
                if !*user_edges(n, &calls).accepted.last().unwrap() {
                    ok = false;
                    break;
                }
            }
            exp.push(ok);
        }
        if exp != b.batch_ok {
            out.push(v(
                "C11",
                "batch-acceptance-differs-from-model",
                format!("batch calls accepted {:?}, model {:?}", b.batch_ok, exp),
            ));
        }
    }
    // one edge per ordered pair
    let mut built_ix: std::collections::HashMap<(usize, usize), Kind> = std::collections::HashMap::new();
    for e in f.built.iter() {
        if built_ix.insert((e.0, e.1), e.2).is_some() {
            out.push(v("C11", "duplicate-edge", format!("two edges {}->{}", e.0, e.1)));
        }
    }
    // user edges kept with their kind (the first built edge of a pair counts, as before)
    let mut first_built: std::collections::HashMap<(usize, usize), Kind> = std::collections::HashMap::new();
    for e in f.built.iter() {
        first_built.entry((e.0, e.1)).or_insert(e.2);
    }
    for u in &f.user {
        match first_built.get(&(u.0, u.1)) {
            None => out.push(v("C11", "user-edge-lost", format!("edge {}->{} missing", u.0, u.1))),
            Some(k) if *k != u.2 => out.push(v(
                "C11",
                "user-edge-kind-changed",
                format!("edge {}->{} has kind {:?}, user gave {:?}", u.0, u.1, k, u.2),
            )),
            _ => {}
        }
    }
    // additional edges: only Data, only between conflicting functions
    let user_pairs: std::collections::HashSet<(usize, usize)> = f.user.iter().map(|u| (u.0, u.1)).collect();
    for e in &f.built {
        if user_pairs.contains(&(e.0, e.1)) {
            continue;
        }
        if e.2 != Kind::Data {
            out.push(v(
                "C11",
                "extra-edge-not-data",
                format!("additional edge {}->{} has kind {:?}", e.0, e.1, e.2),
            ));
        } else if !conflict(&spec.fns[e.0], &spec.fns[e.1]) {
            out.push(v(
                "C11",
                "data-edge-without-conflict",
                format!("Data edge {}->{} joins non-conflicting functions", e.0, e.1),
            ));
        }
    }
    // every conflicting pair is ordered
    for i in 0..n {
        for j in i + 1..n {
            if conflict(&spec.fns[i], &spec.fns[j])
                && !f.built_reach.get(i, j)
                && !f.built_reach.get(j, i)
            {
                out.push(v(
                    "C11",
                    "conflicting-pair-unordered",
                    format!("functions {i} and {j} conflict but are not joined by a path"),
                ));
            }
        }
    }
    out
}

// ------------------------------------------------------------------ C12
pub fn check_c12(spec: &GraphSpec, b: &Built, f: &BuildFacts) -> Vec<Violation> {
    let mut out = vec![];
    let n = f.n;
    if b.g.graph.node_count() != n {
        return out;
    }
    // A: direction rule
    for i in 0..n {
        for j in 0..n {
            if i == j || !conflict(&spec.fns[i], &spec.fns[j]) {
                continue;
            }
            if f.user_reach.get(i, j) || f.user_reach.get(j, i) {
                continue;
            }
            if (f.ranks[i], i) < (f.ranks[j], j) && !f.built_reach.get(i, j) {
                out.push(v(
                    "C12",
                    "wrong-direction",
                    format!(
                        "conflicting {i} (rank {}) and {j} (rank {}) are not ordered {i} before {j}",
                        f.ranks[i], f.ranks[j]
                    ),
                ));
            }
        }
    }
    // A: non-redundancy of every Data edge
    for (ix, e) in f.built.iter().enumerate() {
        if e.2 != Kind::Data {
            continue;
        }
        let mut r = BitMat::from_edges(
            n,
            f.built
                .iter()
                .enumerate()
                .filter(|(k, _)| *k != ix)
                .map(|(_, d)| (d.0, d.1)),
        );
        r.close();
        if r.get(e.0, e.1) {
            out.push(v(
                "C12",
                "redundant-data-edge",
                format!("Data edge {}->{} repeats an ordering implied by other edges", e.0, e.1),
            ));
        }
    }
    // B: differential against the reference construction
    let mut got: Vec<(usize, usize)> = f
        .built
        .iter()
        .filter(|e| e.2 == Kind::Data)
        .map(|e| (e.0, e.1))
        .collect();
    got.sort();
    let mut exp = f.expect_data.clone();
    exp.sort();
    if got != exp {
        out.push(v(
            "C12",
            "data-edges-differ-from-reference",
            format!("Data edges {got:?}, reference construction {exp:?}"),
        ));
    }
    out
}

pub fn check_c12_equality(case: &BuildCase, b: &Built) -> (Vec<Violation>, u64) {
    let mut out = vec![];
    let mut execs = 0;
    let spec = &case.spec;
    // determinism
    match build_recorded(spec) {
        Err(m) => out.push(v("C12", "second-build-panicked", m)),
        Ok(b2) => {
            execs += 1;
            if !(b.g == b2.g) {
                out.push(v("C12", "same-calls-unequal", "same call sequence built twice compares unequal".into()));
            }
            if b.g.ranks() != b2.g.ranks() {
                out.push(v("C12", "same-calls-different-ranks", "ranks differ between two builds".into()));
            }
        }
    }
    if let Some(m) = &case.mutation {
        let s2 = apply_mutation(spec, m);
        let n = spec.n();
        let e1 = user_edges(n, &spec.flat_calls()).edges;
        let e2 = user_edges(n, &s2.flat_calls()).edges;
        let expect_equal = spec.fns == s2.fns && e1 == e2;
        match build_recorded(&s2) {
            Err(msg) => out.push(v("C12", "mutated-build-panicked", msg)),
            Ok(b2) => {
                execs += 1;
                let eq = b.g == b2.g;
                if eq != expect_equal {
                    out.push(v(
                        "C12",
                        if expect_equal { "equal-calls-unequal-graphs" } else { "changed-calls-equal-graphs" },
                        format!(
                            "mutation {m:?}: graphs compare {} but the effective call sequences are {}",
                            if eq { "equal" } else { "unequal" },
                            if expect_equal { "equal" } else { "different" }
                        ),
                    ));
                }
            }
        }
    }
    (out, execs)
}

// ------------------------------------------------------------------ C13
pub fn check_c13(b: &Built, f: &BuildFacts) -> Vec<Violation> {
    let got: Vec<usize> = b.g.ranks().iter().map(|r| r.0).collect();
    if got != f.ranks {
        vec![v(
            "C13",
            "rank-mismatch",
            if got.len() <= 64 || got.len() != f.ranks.len() {
                format!("ranks() = {got:?}, longest chains = {:?}", f.ranks)
            } else {
                let i = (0..got.len()).find(|i| got[*i] != f.ranks[*i]).unwrap_or(0);
                let wrong = (0..got.len()).filter(|i| got[*i] != f.ranks[*i]).count();
                format!("{} functions: ranks()[{i}] = {}, longest chain ending in function {i} = {} ({wrong} functions differ)", got.len(), got[i], f.ranks[i])
            },
        )]
    } else {
        vec![]
    }
}

// ------------------------------------------------------------------ C14
fn check_order(
    out: &mut Vec<Violation>,
    what: &str,
    ids: &[usize],
    f: &BuildFacts,
    backward: bool,
) {
    let n = f.n;
    let mut pos = vec![usize::MAX; n];
    let mut ok = ids.len() == n;
    for (p, &i) in ids.iter().enumerate() {
        if i >= n || pos[i] != usize::MAX {
            ok = false;
            break;
        }
        pos[i] = p;
    }
    if !ok {
        out.push(v(
            "C14",
            "not-a-permutation",
            format!("{what} visited {ids:?}, expected each of 0..{n} once"),
        ));
        return;
    }
    for e in &f.built {
        let fine = if backward {
            pos[e.0] > pos[e.1]
        } else {
            pos[e.0] < pos[e.1]
        };
        if !fine {
            out.push(v(
                "C14",
                "order-violates-edge",
                format!("{what} visited {ids:?} against built edge {}->{} ({:?})", e.0, e.1, e.2),
            ));
            return;
        }
    }
}

pub fn check_c14(case: &BuildCase, b: &mut Built, f: &BuildFacts) -> Vec<Violation> {
    let mut out = vec![];
    let n = f.n;
    let g = &mut b.g;
    if g.graph.node_count() != n {
        return out;
    }
    let walks = if case.walks.is_empty() {
        canonical_walks(case.fail_pos)
    } else {
        case.walks.clone()
    };
    let r = catch_unwind(AssertUnwindSafe(|| {
        let mut out = vec![];
        let exp: Vec<usize> = (0..n).collect();
        // copies of the graph value are graphs too: one made by `clone()`, one made by
        // `clone_from` onto another graph value, walked both ways
        {
            let c1 = g.clone();
            let mut c2 = crate::model::small_other_graph();
            c2.clone_from(g);
            for (name, c) in [("clone()", &c1), ("clone_from()", &c2)] {
                let ids: Vec<usize> = c.iter().map(|f| f.id).collect();
                check_order(&mut out, &format!("{name} of the built graph: iter"), &ids, f, false);
                let ids: Vec<usize> = c.iter_rev().map(|f| f.id).collect();
                check_order(&mut out, &format!("{name} of the built graph: iter_rev"), &ids, f, true);
            }
        }
        for (wi, w) in walks.iter().enumerate() {
            let at = format!("walk #{wi} {w:?}");
            match w {
                Walk::Iter => {
                    let ids: Vec<usize> = g.iter().map(|f| f.id).collect();
                    check_order(&mut out, &format!("{at}: iter"), &ids, f, false);
                }
                Walk::IterRev => {
                    let ids: Vec<usize> = g.iter_rev().map(|f| f.id).collect();
                    check_order(&mut out, &format!("{at}: iter_rev"), &ids, f, true);
                }
                Walk::Interleaved => {
                    let (mut fwd, mut rev, mut second) = (vec![], vec![], vec![]);
                    {
                        let mut a = g.iter();
                        let mut b = g.iter_rev();
                        let mut c = None;
                        for step in 0..=n {
                            if step == n / 2 {
                                c = Some(g.iter());
                            }
                            if let Some(x) = a.next() {
                                fwd.push(x.id);
                            }
                            if let Some(x) = b.next() {
                                rev.push(x.id);
                            }
                            if let Some(c) = c.as_mut() {
                                if let Some(x) = c.next() {
                                    second.push(x.id);
                                }
                            }
                        }
                        if let Some(c) = c.as_mut() {
                            second.extend(c.map(|x| x.id));
                        }
                    }
                    check_order(&mut out, &format!("{at}: iter (advanced in lock step with iter_rev)"), &fwd, f, false);
                    check_order(&mut out, &format!("{at}: iter_rev (advanced in lock step with iter)"), &rev, f, true);
                    check_order(&mut out, &format!("{at}: second iter started half way"), &second, f, false);
                }
                Walk::Topo => {
                    let mut topo = g.toposort();
                    let mut ids = vec![];
                    while let Some(id) = topo.next(&g.graph) {
                        ids.push(g.graph[id].id);
                        if ids.len() > n + 1 {
                            break;
                        }
                    }
                    check_order(&mut out, &format!("{at}: toposort"), &ids, f, false);
                }
                Walk::MapFull => {
                    let ids: Vec<usize> = g.map(|f| f.id).collect();
                    check_order(&mut out, &format!("{at}: map"), &ids, f, false);
                }
                Walk::MapPartial(k) => {
                    if n > 0 {
                        let k = (*k).min(n - 1);
                        let ids: Vec<usize> = g.map(|f| f.id).take(k).collect();
                        // a prefix of some valid order: distinct ids, no edge into an earlier one
                        let mut seen = vec![false; n];
                        for &i in &ids {
                            if i >= n || seen[i] {
                                out.push(v("C14", "not-a-permutation", format!("{at}: map prefix {ids:?}")));
                                break;
                            }
                            for e in &f.built {
                                if e.1 == i && !seen[e.0] {
                                    out.push(v(
                                        "C14",
                                        "order-violates-edge",
                                        format!("{at}: map prefix {ids:?} against built edge {}->{}", e.0, e.1),
                                    ));
                                }
                            }
                            seen[i] = true;
                        }
                    }
                }
                Walk::Fold => {
                    let ids: Vec<usize> = g.fold(vec![], |mut acc, f| {
                        acc.push(f.id);
                        acc
                    });
                    check_order(&mut out, &format!("{at}: fold"), &ids, f, false);
                }
                Walk::ForEach => {
                    let mut ids = vec![];
                    g.for_each(|f| ids.push(f.id));
                    check_order(&mut out, &format!("{at}: for_each"), &ids, f, false);
                }
                Walk::TryFoldOk => {
                    let r: Result<Vec<usize>, ()> = g.try_fold(vec![], |mut acc, f| {
                        acc.push(f.id);
                        Ok(acc)
                    });
                    match r {
                        Ok(ids) => check_order(&mut out, &format!("{at}: try_fold"), &ids, f, false),
                        Err(()) => out.push(v("C14", "spurious-error", format!("{at}: try_fold returned Err without a failing closure"))),
                    }
                }
                Walk::TryForEachOk => {
                    let mut ids = vec![];
                    let r: Result<(), ()> = g.try_for_each(|f| {
                        ids.push(f.id);
                        Ok(())
                    });
                    if r.is_err() {
                        out.push(v("C14", "spurious-error", format!("{at}: try_for_each returned Err without a failing closure")));
                    }
                    check_order(&mut out, &format!("{at}: try_for_each"), &ids, f, false);
                }
                Walk::Insertion => {
                    let ids: Vec<usize> = g.iter_insertion().map(|f| f.id).collect();
                    if ids != exp {
                        out.push(v("C14", "insertion-order", format!("{at}: iter_insertion gave {ids:?}")));
                    }
                    let ids: Vec<usize> = g.iter_insertion_mut().map(|f| f.id).collect();
                    if ids != exp {
                        out.push(v("C14", "insertion-order", format!("{at}: iter_insertion_mut gave {ids:?}")));
                    }
                    let ids: Vec<(usize, usize)> = g
                        .iter_insertion_with_indices()
                        .map(|(i, f)| (i.index(), f.id))
                        .collect();
                    if ids != exp.iter().map(|i| (*i, *i)).collect::<Vec<_>>() {
                        out.push(v("C14", "insertion-order", format!("{at}: iter_insertion_with_indices gave {ids:?}")));
                    }
                }
                Walk::TryFoldFail(p) => {
                    if n > 0 {
                        let p = (*p).min(n - 1);
                        let mut calls = 0usize;
                        let mut failed_id = None;
                        let r: Result<Vec<usize>, usize> = g.try_fold(vec![], |mut acc, f| {
                            calls += 1;
                            if calls == p + 1 {
                                failed_id = Some(f.id);
                                return Err(f.id);
                            }
                            acc.push(f.id);
                            Ok(acc)
                        });
                        if r != Err(failed_id.unwrap_or(usize::MAX)) || calls != p + 1 {
                            out.push(v(
                                "C14",
                                "try_fold-after-error",
                                format!("{at}: try_fold failing at call {} returned {r:?} after {calls} calls", p + 1),
                            ));
                        }
                    }
                }
                Walk::IterPartial(k, rev) => {
                    if n > 0 {
                        let k = (*k).min(n - 1);
                        // abandoned part-way; the next walks must not notice
                        if *rev {
                            let _ = g.iter_rev().take(k).count();
                        } else {
                            let _ = g.iter().take(k).count();
                        }
                    }
                }
                Walk::PanicIn(p, fold) => {
                    if n > 0 {
                        struct CallerPanic;
                        let p = (*p).min(n - 1);
                        let mut calls = 0usize;
                        let r = catch_unwind(AssertUnwindSafe(|| {
                            if *fold {
                                let _ = g.fold(0usize, |a, _f| {
                                    calls += 1;
                                    if calls == p + 1 {
                                        std::panic::panic_any(CallerPanic);
                                    }
                                    a + 1
                                });
                            } else {
                                g.for_each(|_f| {
                                    calls += 1;
                                    if calls == p + 1 {
                                        std::panic::panic_any(CallerPanic);
                                    }
                                });
                            }
                        }));
                        match r {
                            Err(e) if e.is::<CallerPanic>() => {}
                            Err(e) => std::panic::resume_unwind(e),
                            Ok(()) => out.push(v("C14", "closure-not-invoked", format!("{at}: the closure was invoked {calls} times, fewer than {}", p + 1))),
                        }
                    }
                }
                Walk::TryForEachFail(p) => {
                    if n > 0 {
                        let p = (*p).min(n - 1);
                        let mut calls = 0usize;
                        let mut failed_id = None;
                        let r: Result<(), usize> = g.try_for_each(|f| {
                            calls += 1;
                            if calls == p + 1 {
                                failed_id = Some(f.id);
                                return Err(f.id);
                            }
                            Ok(())
                        });
                        if r != Err(failed_id.unwrap_or(usize::MAX)) || calls != p + 1 {
                            out.push(v(
                                "C14",
                                "try_for_each-after-error",
                                format!("{at}: try_for_each failing at call {} returned {r:?} after {calls} calls", p + 1),
                            ));
                        }
                    }
                }
            }
            if !out.is_empty() {
                break;
            }
        }
        out
    }));
    match r {
        Ok(o) => out.extend(o),
        Err(_) => out.push(v("C14", "panic", "sequential iteration panicked".into())),
    }
    out
}

// ------------------------------------------------------------------ C17
/// What the caller's function maps a node to.  Deliberately not just a string:
/// a data-carrying enum (externally tagged: a YAML tag), 128-bit integers, an
/// option and a tuple, all derived from the generated label.
#[derive(Clone, Debug, PartialEq, Eq, Serialize, Deserialize)]
pub enum NodeKind {
    Plain,
    Writes(String),
    Pair(u8, i64),
    Rec { a: Option<u32>, b: (u8, String) },
}

#[derive(Clone, Debug, PartialEq, Eq, Serialize, Deserialize)]
pub struct NodeInfo {
    pub id: usize,
    pub label: String,
    pub kind: NodeKind,
    pub big: u128,
    pub neg: i128,
    pub opt: Option<u8>,
}

impl NodeInfo {
    pub fn of(id: usize, label: &str) -> NodeInfo {
        let b = label.as_bytes();
        let h = b.iter().fold(id as u64 + 7, |a, c| a.wrapping_mul(31).wrapping_add(*c as u64));
        let kind = match h % 4 {
            0 => NodeKind::Plain,
            1 => NodeKind::Writes(label.to_string()),
            2 => NodeKind::Pair(b.len() as u8, -(h as i64 & 0xffff)),
            _ => NodeKind::Rec { a: if h % 8 == 3 { None } else { Some(h as u32) }, b: (id as u8, label.to_uppercase()) },
        };
        NodeInfo {
            id,
            label: label.to_string(),
            kind,
            // beyond u64 / i64 for labels of even length
            big: if b.len() % 2 == 0 { (h as u128) << 64 | 5 } else { h as u128 },
            neg: if b.len() % 3 == 0 { -((h as i128) << 64) } else { -(h as i128 & 0xff) },
            opt: if h % 5 == 0 { None } else { Some(h as u8) },
        }
    }
}

pub fn check_c17(case: &BuildCase, b: &Built, f: &BuildFacts) -> Vec<Violation> {
    let n = f.n;
    if b.g.graph.node_count() != n {
        return vec![];
    }
    let r = catch_unwind(AssertUnwindSafe(|| {
        let mut out = vec![];
        let labels = &case.labels;
        let gi = GraphInfo::from_graph(&b.g, |f| {
            NodeInfo::of(f.id, labels.get(f.id).map(|s| s.as_str()).unwrap_or(""))
        });
        let nodes: Vec<NodeInfo> = gi.graph.raw_nodes().iter().map(|n| n.weight.clone()).collect();
        let exp_nodes: Vec<NodeInfo> = (0..n)
            .map(|i| NodeInfo::of(i, labels.get(i).map(|s| s.as_str()).unwrap_or("")))
            .collect();
        // GraphInfo must not restrict what a node can be: a serialisation route is
        // required to round-trip the GraphInfo whenever it round-trips the bare
        // node list (serde_json::Value, for one, cannot hold integers beyond 64 bits)
        let route_json_str = serde_json::to_string(&exp_nodes)
            .ok()
            .and_then(|s| serde_json::from_str::<Vec<NodeInfo>>(&s).ok())
            .is_some_and(|b| b == exp_nodes);
        let route_json_value = serde_json::to_value(&exp_nodes)
            .ok()
            .and_then(|v| serde_json::from_value::<Vec<NodeInfo>>(v).ok())
            .is_some_and(|b| b == exp_nodes);
        let route_json_reader = serde_json::to_vec(&exp_nodes)
            .ok()
            .and_then(|v| serde_json::from_reader::<_, Vec<NodeInfo>>(std::io::Cursor::new(v)).ok())
            .is_some_and(|b| b == exp_nodes);
        let route_yaml = serde_yaml_ng::to_string(&exp_nodes)
            .ok()
            .and_then(|s| serde_yaml_ng::from_str::<Vec<NodeInfo>>(&s).ok())
            .is_some_and(|b| b == exp_nodes);
        let route_compact = crate::binfmt::to_bytes(&exp_nodes)
            .ok()
            .and_then(|b| crate::binfmt::from_bytes::<Vec<NodeInfo>>(&b).ok())
            .is_some_and(|b| b == exp_nodes);
        if nodes != exp_nodes {
            out.push(v("C17", "nodes-differ", format!("GraphInfo nodes {nodes:?}")));
        }
        let edges_of = |gi: &GraphInfo<NodeInfo>| -> Vec<(usize, usize, Kind)> {
            let mut e: Vec<(usize, usize, Kind)> = gi
                .graph
                .raw_edges()
                .iter()
                .map(|e| (e.source().index(), e.target().index(), Kind::from_edge(e.weight)))
                .collect();
            e.sort_by_key(|e| (e.0, e.1, e.2 as u8));
            e
        };
        let mut exp_edges = f.built.clone();
        exp_edges.sort_by_key(|e| (e.0, e.1, e.2 as u8));
        let got_edges = edges_of(&gi);
        if got_edges != exp_edges {
            out.push(v(
                "C17",
                "edges-differ",
                format!("GraphInfo edges {got_edges:?}, graph edges {exp_edges:?}"),
            ));
        }
        // round trips
        if !route_json_str {
        } else {
        match serde_json::to_string(&gi) {
            Err(e) => out.push(v("C17", "json-serialise", e.to_string())),
            Ok(s) => match serde_json::from_str::<GraphInfo<NodeInfo>>(&s) {
                Err(e) => out.push(v("C17", "json-deserialise", format!("{e}: {s}"))),
                Ok(back) => {
                    let nodes_back: Vec<NodeInfo> =
                        back.graph.raw_nodes().iter().map(|n| n.weight.clone()).collect();
                    if !(back == gi) || nodes_back != nodes || edges_of(&back) != got_edges {
                        out.push(v("C17", "json-roundtrip", format!("JSON round trip changed the value: {s}")));
                    }
                    // the deserialised value must behave like the original one
                    let ids: Vec<usize> = back.iter().map(|n| n.id).collect();
                    let mut o = vec![];
                    check_order(&mut o, "deserialised GraphInfo::iter", &ids, f, false);
                    let ids: Vec<usize> = back.iter_rev().map(|n| n.id).collect();
                    check_order(&mut o, "deserialised GraphInfo::iter_rev", &ids, f, true);
                    for mut x in o {
                        x.prop = "C17".into();
                        out.push(x);
                    }
                    let ids: Vec<(usize, usize)> = back
                        .iter_insertion_with_indices()
                        .map(|(i, n)| (i.index(), n.id))
                        .collect();
                    if ids != (0..n).map(|i| (i, i)).collect::<Vec<_>>() {
                        out.push(v("C17", "insertion-order", format!("deserialised iter_insertion_with_indices gave {ids:?}")));
                    }
                }
            },
        }
        }
        // deserialisers that cannot lend the input (owned strings): value tree and reader
        if route_json_value {
        match serde_json::to_value(&gi) {
            Err(e) => out.push(v("C17", "json-value-serialise", e.to_string())),
            Ok(val) => match serde_json::from_value::<GraphInfo<NodeInfo>>(val) {
                Err(e) => out.push(v("C17", "json-value-deserialise", format!("from_value: {e}"))),
                Ok(back) => {
                    if !(back == gi) || edges_of(&back) != got_edges {
                        out.push(v("C17", "json-value-roundtrip", "JSON value round trip changed the value".into()));
                    }
                }
            },
        }
        }
        if route_json_reader {
        match serde_json::to_vec(&gi) {
            Err(e) => out.push(v("C17", "json-serialise", e.to_string())),
            Ok(bytes) => match serde_json::from_reader::<_, GraphInfo<NodeInfo>>(std::io::Cursor::new(bytes)) {
                Err(e) => out.push(v("C17", "json-reader-deserialise", format!("from_reader: {e}"))),
                Ok(back) => {
                    if !(back == gi) || edges_of(&back) != got_edges {
                        out.push(v("C17", "json-reader-roundtrip", "JSON reader round trip changed the value".into()));
                    }
                }
            },
        }
        }
        // a compact, not self-describing, not human-readable format (the harness's
        // own: binfmt.rs), as bincode / postcard / MessagePack users have
        if route_compact {
        match crate::binfmt::to_bytes(&gi) {
            Err(e) => out.push(v("C17", "compact-serialise", e.to_string())),
            Ok(bytes) => match crate::binfmt::from_bytes::<GraphInfo<NodeInfo>>(&bytes) {
                Err(e) => out.push(v("C17", "compact-deserialise", format!("compact binary format: {e}"))),
                Ok(back) => {
                    let nodes_back: Vec<NodeInfo> =
                        back.graph.raw_nodes().iter().map(|n| n.weight.clone()).collect();
                    if !(back == gi) || nodes_back != nodes || edges_of(&back) != got_edges {
                        out.push(v("C17", "compact-roundtrip", format!("round trip through a compact (not human-readable) serde format changed the value: edges {:?} came back as {:?}", got_edges, edges_of(&back))));
                    }
                    let ids: Vec<usize> = back.iter().map(|n| n.id).collect();
                    let mut o = vec![];
                    check_order(&mut o, "GraphInfo::iter after a compact-format round trip", &ids, f, false);
                    let ids: Vec<usize> = back.iter_rev().map(|n| n.id).collect();
                    check_order(&mut o, "GraphInfo::iter_rev after a compact-format round trip", &ids, f, true);
                    for mut x in o {
                        x.prop = "C17".into();
                        out.push(x);
                    }
                }
            },
        }
        }
        if route_yaml {
        match serde_yaml_ng::to_string(&gi) {
            Err(e) => out.push(v("C17", "yaml-serialise", e.to_string())),
            Ok(s) => match serde_yaml_ng::from_str::<GraphInfo<NodeInfo>>(&s) {
                Err(e) => out.push(v("C17", "yaml-deserialise", format!("{e}: {s}"))),
                Ok(back) => {
                    let nodes_back: Vec<NodeInfo> =
                        back.graph.raw_nodes().iter().map(|n| n.weight.clone()).collect();
                    if !(back == gi) || nodes_back != nodes || edges_of(&back) != got_edges {
                        out.push(v("C17", "yaml-roundtrip", format!("YAML round trip changed the value: {s}")));
                    }
                }
            },
        }
        }
        // walks abandoned part-way (a peek, a `take(k)`, a `find`), then full walks
        if n > 0 {
            let k = (case.fail_pos % n).max(1).min(n);
            let _ = gi.iter().take(k).count();
            let _ = gi.iter_rev().take((k + 1).min(n)).count();
            let _ = gi.iter().next();
        }
        // two walks alive at once (lock step), on the value itself
        {
            let (mut fwd, mut rev) = (vec![], vec![]);
            let mut a = gi.iter();
            let mut b = gi.iter_rev();
            for _ in 0..=n {
                if let Some(x) = a.next() {
                    fwd.push(x.id);
                }
                if let Some(x) = b.next() {
                    rev.push(x.id);
                }
            }
            let mut o = vec![];
            check_order(&mut o, "GraphInfo::iter advanced in lock step with iter_rev", &fwd, f, false);
            check_order(&mut o, "GraphInfo::iter_rev advanced in lock step with iter", &rev, f, true);
            for mut x in o {
                x.prop = "C17".into();
                out.push(x);
            }
        }
        // iteration
        let ids: Vec<usize> = gi.iter().map(|n| n.id).collect();
        let mut o14 = vec![];
        check_order(&mut o14, "GraphInfo::iter", &ids, f, false);
        let ids: Vec<usize> = gi.iter_rev().map(|n| n.id).collect();
        check_order(&mut o14, "GraphInfo::iter_rev", &ids, f, true);
        for mut x in o14 {
            x.prop = "C17".into();
            out.push(x);
        }
        let ids: Vec<(usize, usize)> = gi
            .iter_insertion_with_indices()
            .map(|(i, n)| (i.index(), n.id))
            .collect();
        if ids != (0..n).map(|i| (i, i)).collect::<Vec<_>>() {
            out.push(v("C17", "insertion-order", format!("iter_insertion_with_indices gave {ids:?}")));
        }
        out
    }));
    r.unwrap_or_else(|_| vec![v("C17", "panic", "GraphInfo operation panicked".into())])
}

/// Which serialisation routes round-trip the bare node list of this case (the
/// routes on which C17 is then required of the GraphInfo).
pub fn c17_routes(case: &BuildCase) -> [bool; 5] {
    let nodes: Vec<NodeInfo> = case.labels.iter().enumerate().map(|(i, l)| NodeInfo::of(i, l)).collect();
    [
        serde_json::to_string(&nodes).ok().and_then(|s| serde_json::from_str::<Vec<NodeInfo>>(&s).ok()).is_some_and(|b| b == nodes),
        serde_json::to_value(&nodes).ok().and_then(|v| serde_json::from_value::<Vec<NodeInfo>>(v).ok()).is_some_and(|b| b == nodes),
        serde_json::to_vec(&nodes).ok().and_then(|v| serde_json::from_reader::<_, Vec<NodeInfo>>(std::io::Cursor::new(v)).ok()).is_some_and(|b| b == nodes),
        serde_yaml_ng::to_string(&nodes).ok().and_then(|s| serde_yaml_ng::from_str::<Vec<NodeInfo>>(&s).ok()).is_some_and(|b| b == nodes),
        crate::binfmt::to_bytes(&nodes).ok().and_then(|b| crate::binfmt::from_bytes::<Vec<NodeInfo>>(&b).ok()).is_some_and(|b| b == nodes),
    ]
}

// ------------------------------------------------------------------ C18
pub fn check_c18(b: &Built, f: &BuildFacts) -> Vec<Violation> {
    let n = f.n as u64;
    let mut out = vec![];
    if b.rank_visits > n * n + n {
        out.push(v(
            "C18",
            "rank-visits-exceed-bound",
            format!("rank computation visited nodes {} times for {} functions (bound n^2+n = {})", b.rank_visits, n, n * n + n),
        ));
    }
    if b.access_calls > 4 * n * n + 4 * n {
        out.push(v(
            "C18",
            "access-queries-exceed-bound",
            format!("build() queried data access {} times for {} functions (bound 4n^2+4n)", b.access_calls, n),
        ));
    }
    out
}

// ------------------------------------------------------------------ evaluation of one build case

pub struct BuildEval {
    pub violations: Vec<Violation>,
    pub executions: u64,
    pub facts: Option<BuildFacts>,
    pub rank_visits: u64,
}

pub fn eval_build_case(prop: &str, case: &BuildCase) -> BuildEval {
    let spec = &case.spec;
    let mut b = match build_recorded(spec) {
        Err(m) => {
            return BuildEval {
                violations: vec![v("C11", "build-panicked", format!("build() panicked: {m}"))],
                executions: 1,
                facts: None,
                rank_visits: 0,
            }
        }
        Ok(b) => b,
    };
    let mut executions = 1;
    let f = BuildFacts::new(spec, &b.g);
    let mut out = vec![];
    // cheap oracles always; property-specific expensive ones only for that property
    out.extend(check_c11(spec, &b, &f));
    out.extend(check_c13(&b, &f));
    out.extend(check_c18(&b, &f));
    match prop {
        "C12" => {
            out.extend(check_c12(spec, &b, &f));
            let (o, e) = check_c12_equality(case, &b);
            out.extend(o);
            executions += e;
        }
        "C14" => out.extend(check_c14(case, &mut b, &f)),
        "C17" => out.extend(check_c17(case, &b, &f)),
        _ => {}
    }
    let rank_visits = b.rank_visits;
    BuildEval {
        violations: out,
        executions,
        facts: Some(f),
        rank_visits,
    }
}

pub fn build_rule(prop: &str) -> &'static str {
    match prop {
        "C11" => "non-trivial: the reference construction expects >= 1 Data edge; distinct by hash of decoded builder call sequence",
        "C12" => "non-trivial: >= 1 conflicting pair of equal rank not ordered by user edges (tie-break exercised); distinct by hash of decoded case (incl. mutation)",
        "C13" => "non-trivial: some function has two user-edge parents of different rank; distinct by hash of decoded builder call sequence",
        "C14" => "non-trivial: >= 1 Data edge not implied by user edges and failing position < n-1; distinct by hash of decoded case",
        "C17" => "non-trivial: >= 1 Data edge and >= 1 user edge; distinct by hash of decoded case",
        "C18" => "non-trivial: number of root-to-node paths > n^2 + n (an every-path walk must exceed the bound); distinct by hash of decoded builder call sequence",
        _ => "",
    }
}

pub fn build_nontrivial(prop: &str, case: &BuildCase, f: &BuildFacts) -> bool {
    let n = f.n;
    match prop {
        "C11" => !f.expect_data.is_empty(),
        "C12" => {
            let mut tie = false;
            for i in 0..n {
                for j in i + 1..n {
                    if f.ranks[i] == f.ranks[j]
                        && conflict(&case.spec.fns[i], &case.spec.fns[j])
                        && !f.user_reach.get(i, j)
                        && !f.user_reach.get(j, i)
                    {
                        tie = true;
                    }
                }
            }
            tie
        }
        "C13" => (0..n).any(|x| {
            let pr: Vec<usize> = f.user.iter().filter(|e| e.1 == x).map(|e| f.ranks[e.0]).collect();
            pr.len() >= 2 && pr.iter().any(|r| *r != pr[0])
        }),
        "C14" => !f.expect_data.is_empty() && n > 0 && case.fail_pos < n - 1,
        "C17" => !f.expect_data.is_empty() && !f.user.is_empty(),
        "C18" => root_path_count(n, &f.user) > (n * n + n) as u64,
        _ => false,
    }
}

pub struct BuildCheck {
    pub prop: &'static str,
    pub max_n: usize,
    pub cap: Option<u64>,
    pub tape_lens: [usize; 2],
    /// Size ladder: exactly this many functions.
    pub force_n: Option<usize>,
}

impl BuildCheck {
    pub fn new(prop: &'static str, thorough: bool, cap: Option<u64>) -> Self {
        BuildCheck {
            prop,
            max_n: if thorough { 40 } else { 32 },
            cap,
            tape_lens: if thorough { [2400, 60] } else { [2000, 60] },
            force_n: None,
        }
    }
    pub fn decode(&self, tapes: &[Vec<u16>]) -> BuildCase {
        let mut t = Tape::new(&tapes[0]);
        let mut x = Tape::new(&tapes[1]);
        decode_build_case(&mut t, &mut x, self.max_n, self.cap, self.force_n)
    }
}

pub fn build_labels(case: &BuildCase, ev: &BuildEval) -> Vec<String> {
    let mut l = vec![format!("size:{}", crate::gen::size_class(case.spec.n()))];
    if case.spec.add_mode != 0 && case.spec.n() > 0 {
        l.push(format!("insert:functions_through_add_fns(mode {})", case.spec.add_mode));
    }
    if let Some(f) = &ev.facts {
        if !f.expect_data.is_empty() {
            l.push("graph:expects_data_edges".into());
        }
        if f.user.len() < case.spec.edges.len() {
            l.push("calls:has_rejected_or_repeated".into());
        }
        if f.user.is_empty() {
            l.push("graph:no_user_edges".into());
        }
        let dens = if f.n >= 2 { 100 * f.user.len() / (f.n * (f.n - 1) / 2) } else { 0 };
        l.push(format!("user_edge_density:{}", match dens { 0 => "0%", 1..=20 => "1..20%", 21..=60 => "21..60%", _ => ">60%" }));
    }
    if case.spec.fns.iter().any(|f| {
        let mut a = f.reads.clone();
        a.extend(&f.writes);
        let l0 = a.len();
        a.sort();
        a.dedup();
        a.len() != l0
    }) {
        l.push("access:has_duplicates".into());
    }
    l
}

pub fn build_decoded(case: &BuildCase) -> Value {
    json!({"kind": "build", "case": case})
}

impl Check for BuildCheck {
    fn name(&self) -> String {
        format!("build:{}", self.prop)
    }
    fn tape_lens(&self) -> Vec<usize> {
        self.tape_lens.to_vec()
    }
    fn run_case(&self, tapes: &[Vec<u16>], want_decoded: bool) -> CaseReport {
        let case = self.decode(tapes);
        let ev = eval_build_case(self.prop, &case);
        let nontrivial = ev
            .facts
            .as_ref()
            .is_some_and(|f| build_nontrivial(self.prop, &case, f));
        // hash: C12/C14/C17 include the extras, others only the call sequence
        let hash = match self.prop {
            "C12" | "C14" | "C17" => hash_of(&case),
            _ => hash_of(&case.spec),
        };
        let mut labels = build_labels(&case, &ev);
        if self.prop == "C17" {
            let r = c17_routes(&case);
            for (i, name) in ["json_text", "json_value", "json_reader", "yaml", "compact_binary"].iter().enumerate() {
                if r[i] {
                    labels.push(format!("route_applies:{name}"));
                }
            }
            let nodes: Vec<NodeInfo> = case.labels.iter().enumerate().map(|(i, l)| NodeInfo::of(i, l)).collect();
            if nodes.iter().any(|n| !matches!(n.kind, NodeKind::Plain)) {
                labels.push("node_info:has_data_carrying_enum".into());
            }
            if nodes.iter().any(|n| n.big > u64::MAX as u128 || n.neg < i64::MIN as i128) {
                labels.push("node_info:has_integer_beyond_64_bits".into());
            }
        }
        CaseReport {
            nontrivial,
            hash,
            labels,
            decoded: if want_decoded { Some(build_decoded(&case)) } else { None },
            violations: ev.violations,
            executions: ev.executions,
        }
    }
}

// ------------------------------------------------------------------ exhaustive enumeration

pub struct ExhaustiveResult {
    pub builds: u64,
    pub nontrivial: u64,
    pub violation: Option<(Violation, BuildCase)>,
    pub description: String,
    pub samples: Vec<Value>,
}

/// All labelled DAGs on `n` nodes, as edge masks over ordered pairs (i != j).
pub fn for_each_dag(n: usize, mut f: impl FnMut(&[(usize, usize)]) -> bool) {
    let pairs: Vec<(usize, usize)> = (0..n)
        .flat_map(|i| (0..n).filter(move |j| *j != i).map(move |j| (i, j)))
        .collect();
    let total: u64 = 1u64 << pairs.len();
    let mut edges = Vec::new();
    for mask in 0..total {
        // quick reject: both directions of a pair
        edges.clear();
        for (b, p) in pairs.iter().enumerate() {
            if mask >> b & 1 == 1 {
                edges.push(*p);
            }
        }
        let mut r = BitMat::from_edges(n, edges.iter().copied());
        r.close();
        if (0..n).any(|i| r.get(i, i)) {
            continue;
        }
        if !f(&edges) {
            return;
        }
    }
}

/// Exhaustive: all labelled DAGs with `n <= max_n` x all declarations over two
/// types x {none, read, write} (9^n), edge kinds by parity, edges inserted in
/// pair order.  `with_access = false` enumerates DAGs only (C13, larger n).
pub fn exhaustive(prop: &str, max_n: usize, with_access: bool, workers: usize) -> ExhaustiveResult {
    use std::sync::atomic::{AtomicBool, AtomicU64, Ordering};
    use std::sync::Mutex;
    let builds = AtomicU64::new(0);
    let nontriv = AtomicU64::new(0);
    let stop = AtomicBool::new(false);
    let found: Mutex<Option<(Violation, BuildCase)>> = Mutex::new(None);
    let samples: Mutex<Vec<Value>> = Mutex::new(vec![]);
    // collect DAGs first (cheap), then split over workers
    let mut dags: Vec<(usize, Vec<(usize, usize)>)> = vec![];
    for n in 0..=max_n {
        for_each_dag(n, |e| {
            dags.push((n, e.to_vec()));
            true
        });
    }
    let n_dags = dags.len();
    let chunk = n_dags.div_ceil(workers.max(1));
    std::thread::scope(|sc| {
        for part in dags.chunks(chunk.max(1)) {
            let (builds, nontriv, stop, found, samples) = (&builds, &nontriv, &stop, &found, &samples);
            sc.spawn(move || {
                for (n, edges) in part {
                    let n = *n;
                    let accs = if with_access { 9usize.pow(n as u32) } else { 1 };
                    for a in 0..accs {
                        if stop.load(Ordering::Relaxed) {
                            return;
                        }
                        let mut x = a;
                        let fns: Vec<TestFn> = (0..n)
                            .map(|id| {
                                let c = x % 9;
                                x /= 9;
                                let mut reads = vec![];
                                let mut writes = vec![];
                                for (ty, acc) in [(0u8, c % 3), (1u8, c / 3)] {
                                    match acc {
                                        1 => reads.push(ty),
                                        2 => writes.push(ty),
                                        _ => {}
                                    }
                                }
                                TestFn { id, reads, writes }
                            })
                            .collect();
                        let es: Vec<(usize, usize, Kind)> = edges
                            .iter()
                            .enumerate()
                            .map(|(bi, (i, j))| {
                                (*i, *j, if (bi + a) % 2 == 0 { Kind::Logic } else { Kind::Contains })
                            })
                            .collect();
                        let case = BuildCase {
                            spec: GraphSpec { fns, add_mode: (es.len() % 3) as u8, edges: es, batches: vec![] },
                            fail_pos: if n == 0 { 0 } else { a % n },
                            mutation: None,
                            labels: (0..n).map(|i| format!("f{i}")).collect(),
                            walks: if prop != "C14" || n == 0 {
                                vec![]
                            } else {
                                match a % 4 {
                                    0 => vec![],
                                    1 => vec![Walk::MapPartial(1 % n), Walk::ForEach, Walk::Fold, Walk::MapFull, Walk::IterRev],
                                    2 => vec![Walk::TryForEachFail(a % n), Walk::MapPartial(a % n), Walk::TryFoldOk, Walk::Iter, Walk::Topo],
                                    _ => vec![Walk::TryFoldFail(a % n), Walk::MapFull, Walk::MapPartial(0), Walk::TryForEachOk, Walk::Insertion],
                                }
                            },
                        };
                        let ev = eval_build_case(prop, &case);
                        let k = builds.fetch_add(1, Ordering::Relaxed);
                        if let Some(f) = &ev.facts {
                            if build_nontrivial(prop, &case, f) {
                                nontriv.fetch_add(1, Ordering::Relaxed);
                            }
                        }
                        if matches!(k, 40 | 4000 | 400_000) {
                            samples.lock().unwrap().push(build_decoded(&case));
                        }
                        if let Some(viol) = ev.violations.iter().find(|x| x.prop == prop) {
                            stop.store(true, Ordering::Relaxed);
                            let mut g = found.lock().unwrap();
                            if g.is_none() {
                                *g = Some((viol.clone(), case));
                            }
                            return;
                        }
                    }
                }
            });
        }
    });
    ExhaustiveResult {
        builds: builds.into_inner(),
        nontrivial: nontriv.into_inner(),
        violation: found.into_inner().unwrap(),
        description: format!(
            "all {} labelled DAGs on n <= {} functions{}",
            n_dags,
            max_n,
            if with_access { " x all 9^n access declarations over 2 data types x {none, read, write}, edge kinds by parity" } else { " (no access declarations)" }
        ),
        samples: samples.into_inner().unwrap(),
    }
}

// ------------------------------------------------------------------ big builds
/// Instances on which a single `build()` performs more than 2^16 (thorough: 2^17)
/// pair look-ups, with most conflicting pairs joined *directly* by a user edge:
/// counters, generation stamps and scratch indices narrower than `usize` inside
/// `build()` wrap here and nowhere in the random tier.
///
/// * bipartite: `a` writers of distinct types, `b` readers of all those types, an
///   edge from every writer to every reader (`a*b` conflicting pairs, all joined);
/// * window: one cluster of `s` functions all writing one type, user edges i -> j
///   for 0 < j - i <= w in a hidden order (`s(s-1)/2` conflicting pairs).
pub fn big_build_specs(thorough: bool, seed: u64) -> Vec<(String, GraphSpec)> {
    let mut out = vec![];
    let mut x = seed.wrapping_mul(0x9E37_79B9_7F4A_7C15) | 1;
    let mut next = move || {
        x ^= x << 13;
        x ^= x >> 7;
        x ^= x << 17;
        x
    };
    let mut bip: Vec<(usize, usize)> = vec![(80, 820), (64, 1025 + (seed % 7) as usize), (72, 911 + (seed % 5) as usize)];
    if thorough {
        bip.extend([(80, 1640), (80, 830), (77, 852), (60, 1100)]);
    }
    for (a, b) in bip {
        let n = a + b;
        // insertion order: writers and readers interleaved by a seed-dependent stride
        let mut order: Vec<usize> = (0..n).collect();
        for i in (1..n).rev() {
            let j = (next() % (i as u64 + 1)) as usize;
            order.swap(i, j);
        }
        // order[k] = logical node placed at insertion index k; logical < a = writer
        let mut id_of = vec![0usize; n];
        for (k, l) in order.iter().enumerate() {
            id_of[*l] = k;
        }
        let mut fns: Vec<TestFn> = (0..n).map(|id| TestFn { id, reads: vec![], writes: vec![] }).collect();
        for l in 0..n {
            let id = id_of[l];
            if l < a {
                fns[id].writes = vec![l as u8];
            } else {
                fns[id].reads = (0..a as u8).collect();
            }
        }
        let mut edges = Vec::with_capacity(a * b);
        for w in 0..a {
            for r in a..n {
                let k = if (w + r) % 3 == 0 { Kind::Contains } else { Kind::Logic };
                edges.push((id_of[w], id_of[r], k));
            }
        }
        for i in (1..edges.len()).rev() {
            let j = (next() % (i as u64 + 1)) as usize;
            edges.swap(i, j);
        }
        out.push((format!("bipartite conflict graph: {a} writers x {b} readers, {} directly joined conflicting pairs", a * b), GraphSpec { fns, edges, batches: vec![], add_mode: 0 }));
    }
    // deep: a chain of more than 1024 functions without data access, inserted tail first
    // (every function has a smaller id than all its ancestors)
    {
        let n = 1100 + (seed % 13) as usize;
        let fns: Vec<TestFn> = (0..n).map(|id| TestFn { id, reads: vec![], writes: vec![] }).collect();
        // function id i sits at depth n-1-i: edges (i+1) -> i
        let mut edges: Vec<(usize, usize, Kind)> = (0..n - 1).map(|i| (i + 1, i, if i % 2 == 0 { Kind::Logic } else { Kind::Contains })).collect();
        if seed % 2 == 1 {
            edges.reverse();
        }
        out.push((format!("chain of {n} functions inserted tail first (depth beyond 1024)"), GraphSpec { fns, edges, batches: vec![], add_mode: 0 }));
    }
    // sparse: more than 1024 / 2048 functions, every function has 0..=2
    // predecessors among the 40 before it in a hidden order (forks, joins, long chains),
    // four data types with a few writers and some readers each - per type the rank order
    // reads writer, readers, writer, readers, ...
    // (no larger instance in the thorough tier: `build()` of the unchanged library is
    // quadratic-to-cubic, 4 100 functions with data access take more CPU than the build
    // watchdog allows any single build)
    let sparse: Vec<usize> = vec![1030 + (seed % 40) as usize, 2050 + (seed % 60) as usize];
    for n in sparse {
        let mut order: Vec<usize> = (0..n).collect();
        for i in (1..n).rev() {
            let j = (next() % (i as u64 + 1)) as usize;
            order.swap(i, j);
        }
        let mut fns: Vec<TestFn> = (0..n).map(|id| TestFn { id, reads: vec![], writes: vec![] }).collect();
        for f in fns.iter_mut() {
            for ty in 0..4u8 {
                let r = next() % 100;
                if r == 0 {
                    f.writes.push(ty);
                } else if r < 5 {
                    f.reads.push(ty);
                }
            }
        }
        let mut edges = vec![];
        for k in 1..n {
            let parents = [0usize, 1, 1, 2][(next() % 4) as usize];
            for _ in 0..parents {
                let j = k - 1 - (next() % (k.min(40) as u64)) as usize;
                let kind = if next() % 3 == 0 { Kind::Contains } else { Kind::Logic };
                edges.push((order[j], order[k], kind));
            }
        }
        for i in (1..edges.len()).rev() {
            let j = (next() % (i as u64 + 1)) as usize;
            edges.swap(i, j);
        }
        // the same graph without any data access: no data edge is added, so a wrong rank
        // cannot turn into a `WouldCycle` panic of the augmenter (which is C11's to report)
        // before the ranks are seen
        let plain: Vec<TestFn> = (0..n).map(|id| TestFn { id, reads: vec![], writes: vec![] }).collect();
        out.push((format!("sparse DAG of {n} functions (0..=2 predecessors each within a window of 40 in a hidden order), no data access"), GraphSpec { fns: plain, edges: edges.clone(), batches: vec![], add_mode: 0 }));
        out.push((format!("sparse DAG of {n} functions (0..=2 predecessors each within a window of 40 in a hidden order), 4 data types with ~1% writers and ~4% readers each"), GraphSpec { fns, edges, batches: vec![], add_mode: 0 }));
    }
    let mut win: Vec<(usize, usize)> = vec![(364 + (seed % 9) as usize, 24)];
    if thorough {
        win.extend([(380, 12), (420, 32), (515, 16)]);
    }
    for (s, w) in win {
        let mut order: Vec<usize> = (0..s).collect();
        for i in (1..s).rev() {
            let j = (next() % (i as u64 + 1)) as usize;
            order.swap(i, j);
        }
        let fns: Vec<TestFn> = (0..s).map(|id| TestFn { id, reads: vec![], writes: vec![0] }).collect();
        let mut edges = vec![];
        for i in 0..s {
            for j in i + 1..(i + 1 + w).min(s) {
                let k = if (i + j) % 2 == 0 { Kind::Contains } else { Kind::Logic };
                edges.push((order[i], order[j], k));
            }
        }
        for i in (1..edges.len()).rev() {
            let j = (next() % (i as u64 + 1)) as usize;
            edges.swap(i, j);
        }
        out.push((format!("one cluster of {s} mutually conflicting functions, user edges within a window of {w}"), GraphSpec { fns, edges, batches: vec![], add_mode: 0 }));
    }
    out
}

pub struct BigBuilds {
    pub instances: u64,
    pub max_n: usize,
    pub max_conflicting_pairs: u64,
    pub violation: Option<(Violation, BuildCase)>,
    pub samples: Vec<Value>,
    pub hashes: Vec<u64>,
}

pub fn big_builds(prop: &str, thorough: bool, seed: u64) -> BigBuilds {
    use std::sync::Mutex;
    let specs = big_build_specs(thorough, seed);
    let res: Mutex<BigBuilds> = Mutex::new(BigBuilds { instances: 0, max_n: 0, max_conflicting_pairs: 0, violation: None, samples: vec![], hashes: vec![] });
    std::thread::scope(|sc| {
        for (desc, spec) in specs {
            let res = &res;
            sc.spawn(move || {
                let case = BuildCase { spec, fail_pos: 0, mutation: None, labels: vec![], walks: vec![] };
                let ev = eval_build_case(prop, &case);
                let n = case.spec.n();
                let pairs = ev.facts.as_ref().map(|f| f.expect_data.len() as u64).unwrap_or(0);
                let conflicting = {
                    let f = &case.spec.fns;
                    let mut c = 0u64;
                    for i in 0..n {
                        for j in i + 1..n {
                            if crate::model::conflict(&f[i], &f[j]) {
                                c += 1;
                            }
                        }
                    }
                    c
                };
                let mut r = res.lock().unwrap();
                r.instances += 1;
                r.max_n = r.max_n.max(n);
                r.max_conflicting_pairs = r.max_conflicting_pairs.max(conflicting);
                r.hashes.push(hash_of(&case.spec));
                r.samples.push(json!({"family": desc, "functions": n, "user_edge_calls": case.spec.edges.len(), "conflicting_pairs": conflicting, "expected_data_edges": pairs, "violations": ev.violations.len()}));
                if r.violation.is_none() {
                    if let Some(v) = ev.violations.into_iter().find(|v| v.prop == prop) {
                        r.violation = Some((v, case));
                    }
                }
            });
        }
    });
    res.into_inner().unwrap()
}

// ------------------------------------------------------------------ build histories
/// A graph is built, then K tiny graphs are built on the same thread, then the
/// first graph is built again and judged: reaches state that `build()` keeps per
/// thread or per process between calls (scratch buffers with generation stamps,
/// counters narrower than `usize`).  K is chosen around 2^8 and 2^16.
pub struct BuildHistories {
    pub instances: u64,
    pub builds: u64,
    pub violation: Option<(Violation, BuildCase, u64)>,
    pub samples: Vec<Value>,
    pub hashes: Vec<u64>,
}

/// One build history on a fresh thread: build `case`, `k` tiny builds, build `case`
/// again; returns (violation charged to `prop`, number of builds).
pub fn eval_build_history(prop: &str, case: &BuildCase, k: u64) -> (Option<Violation>, u64) {
    let prop = prop.to_string();
    let case = case.clone();
    std::thread::spawn(move || {
        let first = eval_build_case(&prop, &case);
        let mut builds = 1u64;
        let mut viol: Option<Violation> = first.violations.iter().find(|v| v.prop == prop).cloned();
        if viol.is_none() {
            for i in 0..k {
                let mut b: FnGraphBuilder<TestFn> = FnGraphBuilder::new();
                let a = b.add_fn(TestFn { id: 0, reads: vec![], writes: vec![] });
                if i % 2 == 1 {
                    let c = b.add_fn(TestFn { id: 1, reads: vec![], writes: vec![] });
                    let _ = b.add_logic_edge(a, c);
                }
                let g = b.build();
                std::hint::black_box(&g);
                builds += 1;
            }
            let again = eval_build_case(&prop, &case);
            builds += 1;
            // the first build of this very call sequence was judged clean for this
            // property: whatever is wrong now (a panic included) is charged to it
            let clean_before = first.violations.is_empty();
            viol = again
                .violations
                .into_iter()
                .find(|v| v.prop == prop || clean_before)
                .map(|mut v| {
                    v.msg = format!("after {k} other builds on the same thread the same call sequence gives: [{}] {}", v.prop, v.msg);
                    v.prop = prop.clone();
                    v
                });
        }
        (viol, builds)
    })
    .join()
    .unwrap_or((None, 0))
}

pub fn build_histories(prop: &str, seed: u64) -> BuildHistories {
    use std::sync::Mutex;
    let ks: [u64; 6] = [254, 255, 256, 65_534, 65_535, 65_536];
    let res: Mutex<BuildHistories> = Mutex::new(BuildHistories { instances: 0, builds: 0, violation: None, samples: vec![], hashes: vec![] });
    std::thread::scope(|sc| {
        for (j, k) in ks.iter().copied().flat_map(|k| (0..3).map(move |r| k + 0 * r)).enumerate() {
            let res = &res;
            sc.spawn(move || {
                // a medium case with at least one user edge, from a seed-derived tape
                let mut x = (seed ^ 0x5DEE_CE66D).wrapping_mul(0x9E37_79B9_7F4A_7C15).wrapping_add(j as u64 * 0x1234_5678_9ABC) | 1;
                let mut case = None;
                for _ in 0..200 {
                    let tape: Vec<u16> = (0..600)
                        .map(|_| {
                            x ^= x << 13;
                            x ^= x >> 7;
                            x ^= x << 17;
                            (x >> 40) as u16
                        })
                        .collect();
                    let extra: Vec<u16> = tape.iter().rev().take(60).copied().collect();
                    let c = decode_build_case(&mut Tape::new(&tape), &mut Tape::new(&extra), 32, None, None);
                    // rich enough that a wrong rank or a lost edge shows: chains of >= 3 functions
                    let ue = user_edges(c.spec.n(), &c.spec.flat_calls()).edges;
                    let deep = ref_ranks(c.spec.n(), &ue).iter().copied().max().unwrap_or(0) >= 2;
                    if c.spec.n() >= 8 && c.spec.n() <= 40 && ue.len() >= 4 && deep {
                        case = Some(c);
                        break;
                    }
                }
                let Some(case) = case else { return };
                let (viol, builds) = eval_build_history(prop, &case, k);
                let mut r = res.lock().unwrap();
                r.instances += 1;
                r.builds += builds;
                r.hashes.push(hash_of(&(&case.spec, k)));
                r.samples.push(json!({"functions": case.spec.n(), "other_builds_in_between": k, "violations": viol.is_some() as u8}));
                if r.violation.is_none() {
                    if let Some(v) = viol {
                        r.violation = Some((v, case, k));
                    }
                }
            });
        }
    });
    res.into_inner().unwrap()
}

// ------------------------------------------------------------------ C17: iteration work
/// `GraphInfo::iter` / `iter_rev` on graph families with exponentially many paths
/// (layered, complete): the walk must stay polynomial.  Instances in ascending
/// order of their path count; thread CPU time of the two walks against a budget
/// that is orders of magnitude above what a one-visit-per-node walk needs; the
/// first instance over budget is the violation (and ends the tier).
pub struct IterWork {
    pub instances: u64,
    pub max_cpu_s: f64,
    pub violation: Option<(Violation, BuildCase)>,
    pub hashes: Vec<u64>,
}

pub const ITER_CPU_BUDGET_S: f64 = 1.0;

/// The iteration-work judgement for one spec (replay of an `iter-work` case).
pub fn eval_iter_work(spec: &GraphSpec) -> Vec<Violation> {
    let n = spec.n();
    let Ok(b) = build_recorded(spec) else { return vec![] };
    let gi = GraphInfo::from_graph(&b.g, |f| f.id);
    let t0 = crate::c18::thread_cpu_s();
    let fwd = gi.iter().count();
    let rev = gi.iter_rev().count();
    let cpu = crate::c18::thread_cpu_s() - t0;
    let mut out = vec![];
    if fwd != n || rev != n {
        out.push(v("C17", "iteration-incomplete", format!("iter yielded {fwd} and iter_rev {rev} of {n} nodes")));
    } else if cpu > ITER_CPU_BUDGET_S {
        out.push(v("C17", "iteration-cpu-time-exceeds-budget", format!("GraphInfo::iter + iter_rev over {n} nodes used {cpu:.2} s of CPU (budget {ITER_CPU_BUDGET_S} s)")));
    }
    out
}

pub fn graph_info_iter_work() -> IterWork {
    let mut res = IterWork { instances: 0, max_cpu_s: 0.0, violation: None, hashes: vec![] };
    let mut specs: Vec<(u64, String, GraphSpec)> = vec![];
    let plain = |n: usize| -> Vec<TestFn> { (0..n).map(|id| TestFn { id, reads: vec![], writes: vec![] }).collect() };
    for l in [4usize, 8, 12, 16, 20, 24, 28, 32, 40] {
        let n = 2 * l;
        let mut edges = vec![];
        for i in 0..l - 1 {
            for a in 0..2 {
                for b in 0..2 {
                    edges.push((2 * i + a, 2 * (i + 1) + b, if (a + b) % 2 == 0 { Kind::Logic } else { Kind::Contains }));
                }
            }
        }
        specs.push((1u64 << l.min(62), format!("2-wide ladder of {l} layers"), GraphSpec { fns: plain(n), edges, batches: vec![], add_mode: 0 }));
    }
    for n in [8usize, 12, 16, 20, 24, 28, 32, 40] {
        let edges = (0..n).flat_map(|i| (i + 1..n).map(move |j| (i, j, Kind::Logic))).collect();
        specs.push((1u64 << (n - 2).min(62), format!("complete DAG on {n} functions"), GraphSpec { fns: plain(n), edges, batches: vec![], add_mode: 0 }));
    }
    specs.sort_by_key(|s| s.0);
    for (_paths, what, spec) in specs {
        let n = spec.n();
        let Ok(b) = build_recorded(&spec) else { continue };
        let gi = GraphInfo::from_graph(&b.g, |f| f.id);
        let t0 = crate::c18::thread_cpu_s();
        let fwd: Vec<usize> = gi.iter().copied().collect();
        let rev: Vec<usize> = gi.iter_rev().copied().collect();
        let cpu = crate::c18::thread_cpu_s() - t0;
        res.instances += 1;
        res.max_cpu_s = res.max_cpu_s.max(cpu);
        res.hashes.push(hash_of(&spec));
        let case = BuildCase { spec, fail_pos: 0, mutation: None, labels: vec![], walks: vec![] };
        if fwd.len() != n || rev.len() != n {
            res.violation = Some((v("C17", "iteration-incomplete", format!("{what}: iter yielded {} and iter_rev {} of {n} nodes", fwd.len(), rev.len())), case));
            return res;
        }
        if cpu > ITER_CPU_BUDGET_S {
            res.violation = Some((
                v("C17", "iteration-cpu-time-exceeds-budget", format!("{what}: GraphInfo::iter + iter_rev over {n} nodes used {cpu:.2} s of CPU (budget {ITER_CPU_BUDGET_S} s; a walk that visits every node once needs microseconds)")),
                case,
            ));
            return res;
        }
    }
    res
}
