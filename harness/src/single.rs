//! The single-run check family (C01–C10): graph tape × configuration tape ×
//! schedule tape -> one run under the controlled executor / consumer, all
//! oracles evaluated; per property a generation profile and a non-trivial rule.

use std::collections::hash_map::DefaultHasher;
use std::hash::{Hash, Hasher};

use serde_json::{json, Value};

use crate::cases::{run_single, Schedule, SingleCase, SingleResult};
use crate::driver::{CaseReport, Check};
use crate::explore::{Act, Ev, INTR};
use crate::gen::{decode_cfg, decode_spec, size_class, Profile, RunCfg, Shape, CALL_SHAPES};
use crate::model::GraphSpec;
use crate::oracle::{structural_c06, Violation};
use crate::tape::Tape;

pub struct SingleCheck {
    pub prop: &'static str,
    pub profile: Profile,
    pub max_actions: usize,
    pub tape_lens: [usize; 3],
    /// Also run the differential "signal is a no-op" replay (C08).
    pub ignore_differential: bool,
}

pub use crate::violation::hash_of;

const CONCURRENT: [Shape; 6] = [
    Shape::ForEach,
    Shape::ForEachMut,
    Shape::TryForEach,
    Shape::TryForEachMut,
    Shape::TryControl,
    Shape::TryControlMut,
];
const TRY_SHAPES: [Shape; 6] = [
    Shape::TryForEach,
    Shape::TryForEachMut,
    Shape::TryControl,
    Shape::TryControlMut,
    Shape::TryFold,
    Shape::TryFoldMut,
];

fn stream_shapes() -> Vec<Shape> {
    if INTR {
        vec![Shape::Stream, Shape::StreamIntr]
    } else {
        vec![Shape::Stream]
    }
}

/// Generation profile per property.  `thorough` raises the size caps.
pub fn profile_for(prop: &str, thorough: bool) -> Profile {
    let max_n = if thorough { 40 } else { 40 };
    let mut b = Profile::base(max_n);
    b.coop = true;
    let streams = stream_shapes();
    match prop {
        "C01" => b.with_apis(&CONCURRENT, 8, 1).with_apis(&streams, 10, 2),
        "C02" => b.with_apis(&CALL_SHAPES, 6, 1).with_apis(&streams, 8, 2),
        "C03" => {
            let mut p = b.with_apis(&CALL_SHAPES, 6, 1).with_apis(&streams, 8, 2);
            p.pct_wide = 8;
            p.pct_failing = 15;
            p
        }
        "C04" => {
            let mut p = b.with_apis(&CALL_SHAPES, 6, 2);
            p.aborts = true;
            p
        }
        "C05" => {
            let mut p = b.with_apis(&streams, 4, 1);
            p.pct_wide = 2;
            p.aborts = true;
            p
        }
        "C06" => {
            let mut p = b.with_apis(&CONCURRENT, 6, 1).with_apis(&streams, 10, 2);
            p.limits = false;
            p.interrupts = false;
            p.pct_failing = 0;
            p
        }
        "C07" => {
            let mut p = b.with_apis(&TRY_SHAPES, 6, 1);
            p.pct_failing = 95;
            // fan-in / fan-out beyond 255 with failures among the many predecessors
            p.permille_huge = 4;
            p
        }
        "C08" => {
            let mut p = b.with_apis(&CALL_SHAPES, 6, 0);
            if INTR {
                p = p.with_apis(&[Shape::StreamIntr], 12, 0);
            }
            p.pct_failing = 15;
            p
        }
        "C09" => b.with_apis(&CALL_SHAPES, 6, 1),
        "C10" => {
            let mut p = b.with_apis(&CALL_SHAPES, 6, 1);
            p.force_limit = true;
            p.pct_failing = 20;
            p
        }
        other => panic!("no single-run profile for {other}"),
    }
}

pub fn rule_for(prop: &str) -> &'static str {
    match prop {
        "C01" => "non-trivial: the spec has a conflicting pair not ordered by user edges and >= 2 functions were in flight at once; distinct by hash of (spec, config, action list)",
        "C02" => "non-trivial: >= 1 user edge and an overtaking opportunity (a function with user predecessors was started while another was in flight) or a reverse-order run on a graph whose in/out degree vectors differ; distinct by hash of decoded case",
        "C03" => "non-trivial: clean run (not interrupted, no failure, call returned / stream ended) on a graph with n >= 2; distinct by hash of decoded case",
        "C04" => "non-trivial: n = 0, or >= 2 user futures in flight at once, or a failure, or an effective interrupt; distinct by hash of decoded case",
        "C05" => "non-trivial: a FnRef drop happened while the stream was quiet (pending, no wake) or >= 2 drops between consecutive polls; distinct by hash of decoded case",
        "C06" => "non-trivial: a quiet point (pending, no wake-up outstanding) at which >= 1 function was still unstarted, on a graph with >= 1 read-sharing pair or >= 1 Data edge; distinct by hash of decoded case",
        "C07" => "non-trivial: a started function failed and had >= 1 built-graph successor, or >= 2 functions failed; distinct by hash of decoded case",
        "C08" => "non-trivial: signal delivered while >= 1 function was unstarted (strategy FinishCurrent/PollNextN), or IgnoreInterruptions differential with a delivered signal; distinct by hash of decoded case",
        "C09" => "non-trivial: outcome with a non-empty not-processed list, or >= 2 processed under >= 2-way concurrency; distinct by hash of decoded case",
        "C10" => "non-trivial: the limit was binding (in flight == limit while another function was ready) or a fold call on n >= 2; distinct by hash of decoded case",
        _ => "",
    }
}

fn degree_vectors_differ(spec_n: usize, built: &[(usize, usize, crate::model::Kind)]) -> bool {
    let mut ind = vec![0usize; spec_n];
    let mut outd = vec![0usize; spec_n];
    for &(a, b, _) in built {
        outd[a] += 1;
        ind[b] += 1;
    }
    ind != outd
}

pub fn nontrivial(prop: &str, cfg: &RunCfg, r: &SingleResult) -> bool {
    let st = &r.stats;
    let f = &r.facts;
    match prop {
        "C01" => f.has_unordered_conflict && st.max_inflight >= 2,
        "C02" => {
            !f.user.is_empty()
                && (st.overtaking || (cfg.rev && degree_vectors_differ(f.n, &f.built)))
        }
        "C03" => st.clean && f.n >= 2,
        "C04" => {
            f.n == 0 || st.max_inflight >= 2 || !st.failed.is_empty() || st.effective_interrupt
        }
        "C05" => {
            st.max_completes_between_polls >= 2 || completes_while_quiet(&r.trace)
        }
        "C06" => st.quiet_with_unstarted > 0 && (f.has_read_sharing || f.n_data_edges > 0),
        "C07" => st.failed_with_successor || st.failed.len() >= 2,
        "C08" => st.signal_sent && st.unstarted_at_signal > 0 && cfg.strat.has_channel(),
        "C09" => {
            r.ret.outcome().is_some_and(|o| {
                !o.not_processed.is_empty() || (o.processed.len() >= 2 && st.max_inflight >= 2)
            })
        }
        "C10" => st.limit_binding || (cfg.api.shape.is_fold() && f.n >= 2),
        _ => false,
    }
}

/// An End (FnRef drop / completion) directly after a Quiet marker.
fn completes_while_quiet(trace: &[Ev]) -> bool {
    trace
        .windows(2)
        .any(|w| w[0] == Ev::Quiet && matches!(w[1], Ev::End(..)))
}

pub fn labels(cfg: &RunCfg, r: &SingleResult) -> Vec<String> {
    let st = &r.stats;
    let mut l = vec![
        format!("size:{}", size_class(r.facts.n)),
        format!("api:{}", cfg.api.name()),
        format!("ret:{}", r.ret.label()),
        format!("order:{}", if cfg.rev { "reverse" } else { "forward" }),
        format!(
            "limit:{}",
            match cfg.limit {
                None => "None".to_string(),
                Some(0) => "0".to_string(),
                Some(_) => ">=1".to_string(),
            }
        ),
        format!("strat:{}", match cfg.strat {
            crate::gen::Strat::NonInterruptible => "NonInterruptible",
            crate::gen::Strat::IgnoreInterruptions => "IgnoreInterruptions",
            crate::gen::Strat::FinishCurrent => "FinishCurrent",
            crate::gen::Strat::PollNextN(0) => "PollNextN(0)",
            crate::gen::Strat::PollNextN(_) => "PollNextN(>=1)",
        }),
        format!(
            "max_in_flight:{}",
            match st.max_inflight {
                0 => "0",
                1 => "1",
                2..=4 => "2..4",
                5..=64 => "5..64",
                _ => ">64",
            }
        ),
    ];
    if !cfg.unwind.is_empty() {
        l.push("run:fnrefs_dropped_by_contained_panics".into());
    }
    if cfg.rev && cfg.rev_again > 0 {
        l.push("run:rev_called_more_than_once".into());
    }
    if cfg.on_clone {
        l.push("run:on_a_clone_of_the_built_graph".into());
    }
    if cfg.pre_interrupted > 0 {
        l.push("run:state_already_interrupted".into());
    }
    if r.facts.n_data_edges > 0 {
        l.push("graph:has_data_edges".into());
    }
    if r.facts.has_unordered_conflict {
        l.push("graph:has_unordered_conflict".into());
    }
    if r.facts.has_read_sharing {
        l.push("graph:has_read_sharing".into());
    }
    if !st.failed.is_empty() {
        l.push(format!("failures:{}", if st.failed.len() >= 2 { ">=2" } else { "1" }));
    }
    if st.signal_sent {
        let phase = if r.acts.first() == Some(&Act::Interrupt) {
            "before_call"
        } else if st.unstarted_at_signal == 0 {
            "after_last_start"
        } else if st.inflight_at_signal == 0 {
            "between_items"
        } else if matches!(cfg.limit, Some(l) if l >= 1 && st.inflight_at_signal >= l) {
            "at_concurrency_limit"
        } else {
            "while_in_flight"
        };
        l.push(format!("signal:{phase}"));
        if st.effective_interrupt {
            l.push("signal:effective".into());
        }
    }
    if st.limit_binding {
        l.push("limit:binding".into());
    }
    if st.max_ready_unstarted > 64 {
        l.push("ready_at_once:>64".into());
    }
    if st.clean {
        l.push("run:clean".into());
    }
    if st.max_completes_between_polls >= 2 {
        l.push("schedule:>=2_completions_between_polls".into());
    }
    if st.max_completes_between_polls >= 16 {
        l.push("schedule:>=16_completions_between_polls".into());
    }
    if st.max_completes_between_polls >= 129 {
        l.push("schedule:>=129_completions_between_polls".into());
    }
    if cfg.coop {
        l.push("mode:inside_tokio_task_polls(coop budget)".into());
        let mut longest = 0usize;
        let mut cur = 0usize;
        for a in &r.acts {
            if *a == Act::Yield {
                longest = longest.max(cur);
                cur = 0;
            } else {
                cur += 1;
            }
        }
        if longest >= 65 {
            l.push("coop:task_poll_with_>=65_actions".into());
        }
    }
    if !cfg.instant.is_empty() {
        l.push("user_futures:some_complete_on_first_poll".into());
    }
    if st.quiet_points > 0 {
        l.push("schedule:has_quiet_point".into());
    }
    l
}

pub fn decoded_json(case: &SingleCase, r: &SingleResult) -> Value {
    json!({
        "kind": "single",
        "intr_build": INTR,
        "case": case,
        "trace": r.trace,
        "ret": r.ret,
    })
}

impl SingleCheck {
    pub fn new(prop: &'static str, thorough: bool) -> Self {
        SingleCheck {
            prop,
            profile: profile_for(prop, thorough),
            max_actions: if thorough { 600 } else { 300 },
            tape_lens: if thorough { [420, 40, 600] } else { [260, 40, 300] },
            ignore_differential: prop == "C08",
        }
    }

    /// One case in 32 (decided by the last value of the configuration tape) is run
    /// on a fresh thread *after* another run on another, small graph, decoded from
    /// the same tapes read backwards.
    pub fn decode_pre(&self, tapes: &[Vec<u16>]) -> Option<(GraphSpec, RunCfg)> {
        let v = *tapes[1].last()?;
        if v % 32 != 0 {
            return None;
        }
        let rev0: Vec<u16> = tapes[0].iter().rev().copied().collect();
        let rev1: Vec<u16> = tapes[1].iter().rev().copied().collect();
        let mut p = self.profile.clone();
        p.pct_wide = 0;
        p.force_n = None;
        p.permille_huge = 0;
        p.pct_medium = 10;
        p.max_n = 12;
        let spec = decode_spec(&mut Tape::new(&rev0), &p);
        let cfg = decode_cfg(&mut Tape::new(&rev1), &p, spec.n(), INTR);
        Some((spec, cfg))
    }

    pub fn decode(&self, tapes: &[Vec<u16>]) -> (GraphSpec, RunCfg) {
        let mut gt = Tape::new(&tapes[0]);
        let spec = decode_spec(&mut gt, &self.profile);
        let mut ct = Tape::new(&tapes[1]);
        let cfg = decode_cfg(&mut ct, &self.profile, spec.n(), INTR);
        (spec, cfg)
    }
}

/// Differential for strategies under which a signal must not change anything:
/// replay the recorded actions without the `Interrupt` action on a fresh graph
/// and compare traces (without the Interrupt marker) and results.
pub fn ignore_differential(case: &SingleCase, r: &SingleResult) -> Vec<Violation> {
    let mut out = vec![];
    if !r.stats.signal_sent || case.cfg.strat.effective() {
        return out;
    }
    let acts: Vec<Act> = case
        .acts
        .iter()
        .copied()
        .filter(|a| *a != Act::Interrupt)
        .collect();
    let r2 = run_single(&case.spec, &case.cfg, Schedule::Strict(&acts));
    // Start/End sequence only: the observation markers depend on the number of
    // actions, which differs by construction.
    let t1: Vec<&Ev> = r
        .trace
        .iter()
        .filter(|e| matches!(e, Ev::Start(_) | Ev::End(..)))
        .collect();
    let t2: Vec<&Ev> = r2
        .trace
        .iter()
        .filter(|e| matches!(e, Ev::Start(_) | Ev::End(..)))
        .collect();
    if !r2.strict_ok || t1 != t2 || r.ret != r2.ret {
        out.push(Violation {
            prop: "C08".into(),
            kind: "ignored-signal-changed-run".into(),
            msg: format!(
                "with {:?} the signal changed the run: with signal trace={:?} ret={:?}; without trace={:?} ret={:?} (replay applicable={})",
                case.cfg.strat, r.trace, r.ret, r2.trace, r2.ret, r2.strict_ok
            ),
        });
    }
    out
}

impl SingleCheck {
    fn report(&self, case: SingleCase, mut r: crate::cases::SingleResult, want_decoded: bool, mut executions: u64) -> CaseReport {
        if self.prop == "C06" {
            let extra = structural_c06(&r.facts);
            r.violations.extend(extra);
        }
        if self.ignore_differential {
            let extra = ignore_differential(&case, &r);
            if r.stats.signal_sent && !case.cfg.strat.effective() {
                executions += 1;
            }
            r.violations.extend(extra);
        }
        CaseReport {
            nontrivial: nontrivial(self.prop, &case.cfg, &r),
            hash: hash_of(&case),
            labels: {
                let mut l = labels(&case.cfg, &r);
                if case.pre.is_some() {
                    l.push("run:on_a_fresh_thread_after_another_run".into());
                }
                l
            },
            decoded: if want_decoded {
                Some(decoded_json(&case, &r))
            } else {
                None
            },
            violations: r.violations,
            executions,
        }
    }
}

impl Check for SingleCheck {
    fn run_after(&self, pre: &[Vec<u16>], tapes: &[Vec<u16>]) -> Option<CaseReport> {
        let (pspec, pcfg) = self.decode(pre);
        let (spec, cfg) = self.decode(tapes);
        let (r, pre_case) = std::thread::scope(|sc| {
            sc.spawn(|| {
                let mut pt = Tape::new(&pre[2]);
                if pspec.n() >= 41 {
                    pt.enable_tail();
                }
                let pr = run_single(&pspec, &pcfg, Schedule::Tape(&mut pt, self.max_actions.max(3 * pspec.n() + 20), pcfg.abort_after));
                let mut st = Tape::new(&tapes[2]);
                if spec.n() >= 41 {
                    st.enable_tail();
                }
                let r = run_single(&spec, &cfg, Schedule::Tape(&mut st, self.max_actions.max(3 * spec.n() + 20), cfg.abort_after));
                (r, SingleCase { spec: pspec.clone(), cfg: pcfg.clone(), acts: pr.acts, pre: None })
            })
            .join()
            .expect("harness thread")
        });
        let case = SingleCase { spec, cfg, acts: r.acts.clone(), pre: Some(Box::new(pre_case)) };
        Some(self.report(case, r, true, 2))
    }
    fn name(&self) -> String {
        format!("single:{}", self.prop)
    }
    fn tape_lens(&self) -> Vec<usize> {
        self.tape_lens.to_vec()
    }
    fn run_case(&self, tapes: &[Vec<u16>], want_decoded: bool) -> CaseReport {
        let (spec, cfg) = self.decode(tapes);
        let mut st = Tape::new(&tapes[2]);
        if spec.n() >= 41 {
            st.enable_tail();
        }
        let max_actions = self.max_actions.max(3 * spec.n() + 20);
        let pre = self.decode_pre(tapes);
        let (r, pre) = match pre {
            None => (run_single(&spec, &cfg, Schedule::Tape(&mut st, max_actions, cfg.abort_after)), None),
            Some((pspec, pcfg)) => {
                // on a fresh thread: first the other run, then this one
                let rev2: Vec<u16> = tapes[2].iter().rev().copied().collect();
                std::thread::scope(|sc| {
                    sc.spawn(|| {
                        let mut pt = Tape::new(&rev2);
                        let pr = run_single(&pspec, &pcfg, Schedule::Tape(&mut pt, self.max_actions, pcfg.abort_after));
                        let r = run_single(&spec, &cfg, Schedule::Tape(&mut st, max_actions, cfg.abort_after));
                        let pre = SingleCase { spec: pspec.clone(), cfg: pcfg.clone(), acts: pr.acts, pre: None };
                        (r, Some(Box::new(pre)))
                    })
                    .join()
                    .expect("harness thread")
                })
            }
        };
        let case = SingleCase {
            spec,
            cfg,
            acts: r.acts.clone(),
            pre,
        };
        self.report(case, r, want_decoded, 1)
    }
}

/// Replay a decoded single case (from a replay file): returns the violations.
pub fn replay_single(case: &SingleCase, prop: &str) -> (SingleResult, Vec<Violation>) {
    let mut r = match &case.pre {
        None => run_single(&case.spec, &case.cfg, Schedule::Replay(&case.acts)),
        Some(pre) => std::thread::scope(|sc| {
            sc.spawn(|| {
                let _ = run_single(&pre.spec, &pre.cfg, Schedule::Replay(&pre.acts));
                run_single(&case.spec, &case.cfg, Schedule::Replay(&case.acts))
            })
            .join()
            .expect("harness thread")
        }),
    };
    if prop == "C06" {
        let extra = structural_c06(&r.facts);
        r.violations.extend(extra);
    }
    if prop == "C08" {
        let c2 = SingleCase {
            spec: case.spec.clone(),
            cfg: case.cfg.clone(),
            acts: r.acts.clone(),
            pre: None,
        };
        let extra = ignore_differential(&c2, &r);
        r.violations.extend(extra);
    }
    let v = r.violations.clone();
    (r, v)
}

// ------------------------------------------------------------------ big runs
/// A few runs on graphs of more than 1024 functions (chain, fan-out, fan-in, tree):
/// counts, depths and queue lengths beyond every size the random tier reaches.
pub struct BigRuns {
    pub runs: u64,
    pub max_n: usize,
    pub violation: Option<(Violation, SingleCase)>,
    pub samples: Vec<serde_json::Value>,
    pub hashes: Vec<u64>,
}

fn big_run_specs(seed: u64) -> Vec<(String, GraphSpec)> {
    use crate::model::{Kind, TestFn};
    let n = 1030 + (seed % 11) as usize;
    let plain = |n: usize| -> Vec<TestFn> { (0..n).map(|id| TestFn { id, reads: vec![], writes: vec![] }).collect() };
    let k = |i: usize| if i % 3 == 0 { Kind::Contains } else { Kind::Logic };
    vec![
        (format!("chain of {n}"), GraphSpec { fns: plain(n), edges: (0..n - 1).map(|i| (i, i + 1, k(i))).collect(), batches: vec![], add_mode: 0 }),
        (format!("fan-out: one hub before {} functions", n - 1), GraphSpec { fns: plain(n), edges: (1..n).map(|i| (0, i, k(i))).collect(), batches: vec![], add_mode: 0 }),
        (format!("fan-in: {} functions before one sink", n - 1), GraphSpec { fns: plain(n), edges: (0..n - 1).map(|i| (i, n - 1, k(i))).collect(), batches: vec![], add_mode: 0 }),
        (format!("ternary tree of {n}"), GraphSpec { fns: plain(n), edges: (1..n).map(|i| ((i - 1) / 3, i, k(i))).collect(), batches: vec![], add_mode: 0 }),
    ]
}

pub fn big_runs(prop: &'static str, seed: u64) -> BigRuns {
    use crate::gen::{Api, Strat};
    use std::sync::Mutex;
    let res: Mutex<BigRuns> = Mutex::new(BigRuns { runs: 0, max_n: 0, violation: None, samples: vec![], hashes: vec![] });
    let shapes: Vec<(Shape, bool, Option<usize>)> = vec![
        (Shape::ForEach, false, None),
        (Shape::ForEach, true, Some(3)),
        (Shape::TryForEach, true, Some(0)),
        (Shape::Fold, false, None),
        (Shape::Stream, false, None),
        (Shape::Stream, true, None),
    ];
    std::thread::scope(|sc| {
        for (si, (desc, spec)) in big_run_specs(seed).into_iter().enumerate() {
            let res = &res;
            let shapes = shapes.clone();
            sc.spawn(move || {
                let g0 = crate::model::build_graph(&spec);
                let facts = crate::model::GraphFacts::new(&spec, &g0);
                let n = spec.n();
                for (ci, (shape, rev, limit)) in shapes.into_iter().enumerate() {
                    let cfg = RunCfg {
                        api: Api { shape, with: true },
                        rev,
                        limit: if shape.is_concurrent() { limit } else { None },
                        strat: Strat::NonInterruptible,
                        include: true,
                        failing: vec![],
                        yields: (0..n).map(|i| ((i + ci) % 3) as u8).collect(),
                        abort_after: None,
                        instant: if shape.is_stream() || ci % 2 == 0 { vec![] } else { (0..n).collect() },
                        coop: false,
                        drop_sender: false,
                        pre_interrupted: 0,
                        on_clone: false,
                        unwind: vec![],
                        rev_again: 0,
                        opts_order: (ci % 6) as u8,
                    };
                    // schedule: a short seed-derived tape with a pseudo-random tail
                    let tape: Vec<u16> = (0..8u64).map(|j| (seed.wrapping_mul(0x9E37_79B9).wrapping_add(j * 7919 + si as u64 * 31 + ci as u64) >> 3) as u16).collect();
                    let mut t = Tape::new(&tape);
                    t.enable_tail();
                    let mut g = g0.clone();
                    let r = crate::cases::run_on(&mut g, facts.clone(), &cfg, Schedule::Tape(&mut t, 4 * n + 64, None));
                    let case = SingleCase { spec: spec.clone(), cfg: cfg.clone(), acts: r.acts.clone(), pre: None };
                    let viol = r.violations.iter().find(|v| v.prop == prop).cloned();
                    let mut out = res.lock().unwrap();
                    out.runs += 1;
                    out.max_n = out.max_n.max(n);
                    out.hashes.push(hash_of(&(&desc, ci)));
                    if out.samples.len() < 2 {
                        out.samples.push(serde_json::json!({"graph": desc, "api": cfg.api.name(), "reverse": rev, "limit": format!("{limit:?}"), "actions": r.acts.len(), "ret": r.ret.label()}));
                    }
                    if out.violation.is_none() {
                        if let Some(v) = viol {
                            let mut v = v;
                            v.msg = format!("{desc}, {}: {}", cfg.api.name(), v.msg);
                            out.violation = Some((v, case));
                        }
                    }
                }
            });
        }
    });
    res.into_inner().unwrap()
}

// ------------------------------------------------------------------ drop-count sweep
/// Streams: for a join with F predecessors (F = 130, 260; forward and, mirrored,
/// reverse) every number k = 1..F of `FnRef`s is dropped between two polls once,
/// the rest one at a time.  Whatever batch size, budget or drain limit the stream
/// code uses internally, some k hits it exactly.
pub fn drop_sweep(prop: &'static str) -> BigRuns {
    use crate::gen::{Api, Strat};
    use crate::model::{Kind, TestFn};
    use std::sync::Mutex;
    let res: Mutex<BigRuns> = Mutex::new(BigRuns { runs: 0, max_n: 0, violation: None, samples: vec![], hashes: vec![] });
    std::thread::scope(|sc| {
        for (fan, rev) in [(130usize, false), (260, false), (130, true), (260, true)] {
            let res = &res;
            sc.spawn(move || {
                let n = fan + 2;
                let fns: Vec<TestFn> = (0..n).map(|id| TestFn { id, reads: vec![], writes: vec![] }).collect();
                // forward: roots 0..fan -> join (fan) -> tail (fan+1); the reverse case
                // streams the mirrored graph in reverse order
                let edges: Vec<(usize, usize, Kind)> = if !rev {
                    (0..fan).map(|i| (i, fan, Kind::Logic)).chain([(fan, fan + 1, Kind::Contains)]).collect()
                } else {
                    (0..fan).map(|i| (fan, i, Kind::Logic)).chain([(fan + 1, fan, Kind::Contains)]).collect()
                };
                let spec = GraphSpec { fns, edges, batches: vec![], add_mode: 0 };
                let g0 = crate::model::build_graph(&spec);
                let facts = crate::model::GraphFacts::new(&spec, &g0);
                let cfg = RunCfg {
                    api: Api { shape: Shape::Stream, with: true },
                    rev,
                    limit: None,
                    strat: Strat::NonInterruptible,
                    include: true,
                    failing: vec![],
                    yields: vec![0; n],
                    abort_after: None,
                    instant: vec![],
                    coop: false,
                    drop_sender: false,
                    pre_interrupted: 0,
                    on_clone: false,
                    unwind: vec![],
                    rev_again: 0,
                    opts_order: 0,
                };
                for k in 1..=fan {
                    // poll until the stream is pending with all `fan` FnRefs held, drop k of
                    // them without polling, poll once, then the default policy finishes
                    let mut acts: Vec<Act> = vec![Act::Poll; fan + 1];
                    acts.extend((0..k).map(Act::Complete));
                    acts.push(Act::Poll);
                    let mut g = g0.clone();
                    let r = crate::cases::run_on(&mut g, facts.clone(), &cfg, Schedule::Replay(&acts));
                    let viol = r.violations.iter().find(|v| v.prop == prop).cloned();
                    let mut out = res.lock().unwrap();
                    out.runs += 1;
                    out.max_n = out.max_n.max(n);
                    if k % 64 == 0 {
                        out.hashes.push(hash_of(&(fan, rev, k)));
                    }
                    if out.violation.is_none() {
                        if let Some(mut v) = viol {
                            v.msg = format!("join with {fan} predecessors ({}), {k} FnRefs dropped between two polls: {}", if rev { "reverse" } else { "forward" }, v.msg);
                            let case = SingleCase { spec: spec.clone(), cfg: cfg.clone(), acts: r.acts.clone(), pre: None };
                            out.violation = Some((v, case));
                            return;
                        }
                    }
                }
            });
        }
    });
    res.into_inner().unwrap()
}

// ------------------------------------------------------------------ limit sweep
/// Limited concurrent calls on "two brooms": a hub `a` with `p` successors, and
/// next to it a chain of `k + 1` functions whose last one has `q` successors.  The
/// hub is kept in flight while the chain is completed link by link; then `j` of the
/// `q` chain-end successors are completed, then the hub, then the default policy
/// finishes.  At that moment functions of generation 1 (the hub's successors) and
/// of generation `k + 1` are waiting for a slot together - more waiting functions,
/// and from generations further apart, than a breadth-first walk ever holds.
/// Forward and (mirrored graph) reverse, limits 2..=4, the six limit-taking APIs.
pub fn limit_sweep(prop: &'static str) -> BigRuns {
    use crate::gen::{Api, Strat};
    use crate::model::{Kind, TestFn};
    use std::sync::Mutex;
    let res: Mutex<BigRuns> = Mutex::new(BigRuns { runs: 0, max_n: 0, violation: None, samples: vec![], hashes: vec![] });
    let shapes = [Shape::ForEach, Shape::ForEachMut, Shape::TryForEach, Shape::TryForEachMut, Shape::TryControl, Shape::TryControlMut];
    std::thread::scope(|sc| {
        for (si, shape) in shapes.into_iter().enumerate() {
            for rev in [false, true] {
                let res = &res;
                sc.spawn(move || {
                    for p in [3usize, 5, 9] {
                        for q in [5usize, 8, 14] {
                            for k in 1..=4usize {
                                // ids: hub 0, its successors 1..=p, chain p+1..=p+1+k, chain-end successors after
                                let c0 = p + 1;
                                let ck = c0 + k;
                                let n = ck + 1 + q;
                                let fns: Vec<TestFn> = (0..n).map(|id| TestFn { id, reads: vec![], writes: vec![] }).collect();
                                let mut e: Vec<(usize, usize)> = (1..=p).map(|h| (0, h)).collect();
                                e.extend((c0..ck).map(|c| (c, c + 1)));
                                e.extend((ck + 1..n).map(|d| (ck, d)));
                                let edges: Vec<(usize, usize, Kind)> = e
                                    .into_iter()
                                    .enumerate()
                                    .map(|(i, (a, b))| {
                                        let kind = if i % 3 == 2 { Kind::Contains } else { Kind::Logic };
                                        if rev { (b, a, kind) } else { (a, b, kind) }
                                    })
                                    .collect();
                                let spec = GraphSpec { fns, edges, batches: vec![], add_mode: 0 };
                                let g0 = crate::model::build_graph(&spec);
                                let facts = crate::model::GraphFacts::new(&spec, &g0);
                                for limit in 2..=4usize {
                                    let cfg = RunCfg {
                                        api: Api { shape, with: rev || (p + q + k + limit + si) % 2 == 0 },
                                        rev,
                                        limit: Some(limit),
                                        strat: Strat::NonInterruptible,
                                        include: true,
                                        failing: vec![],
                                        yields: vec![0; n],
                                        abort_after: None,
                                        instant: vec![],
                                        coop: false,
                                        drop_sender: false,
                                        pre_interrupted: 0,
                                        on_clone: false,
                                        unwind: vec![],
                                        rev_again: 0,
                                        opts_order: 0,
                                    };
                                    for j in 0..=q.min(limit + 3) {
                                        // a completion takes up to three polls to have its full effect
                                        // (the end is seen, the successors are queued, the next one starts)
                                        let mut acts: Vec<Act> = vec![Act::Poll; 3];
                                        for c in c0..=ck {
                                            acts.push(Act::Complete(c));
                                            acts.extend([Act::Poll; 3]);
                                        }
                                        // which chain-end successors hold the slots depends on the order in
                                        // which the library queued them (first or last declared first): both
                                        // are named, the one that is not in flight is skipped by the replay
                                        for i in 0..j {
                                            acts.push(Act::Complete(ck + 1 + i));
                                            acts.push(Act::Complete(n - 1 - i));
                                            acts.extend([Act::Poll; 3]);
                                        }
                                        acts.push(Act::Complete(0));
                                        acts.extend([Act::Poll; 3]);
                                        let mut g = g0.clone();
                                        let r = crate::cases::run_on(&mut g, facts.clone(), &cfg, Schedule::Replay(&acts));
                                        let viol = r.violations.iter().find(|v| v.prop == prop).cloned();
                                        let mut out = res.lock().unwrap();
                                        out.runs += 1;
                                        out.max_n = out.max_n.max(n);
                                        out.hashes.push(hash_of(&(si, rev, p, q, k, limit, j)));
                                        if out.samples.len() < 3 && j == 1 {
                                            out.samples.push(serde_json::json!({"api": format!("{:?}", cfg.api), "rev": rev, "hub_successors": p, "chain_links": k + 1, "chain_end_successors": q, "limit": limit, "chain_end_successors_completed_before_the_hub": j, "trace_len": r.trace.len()}));
                                        }
                                        if out.violation.is_none() {
                                            if let Some(mut v) = viol {
                                                v.msg = format!("two brooms (hub with {p} successors; chain of {} ending in {q} successors; {}), limit {limit}, hub completed after {j} chain-end successors: {}", k + 1, if rev { "mirrored, reverse" } else { "forward" }, v.msg);
                                                let case = SingleCase { spec: spec.clone(), cfg: cfg.clone(), acts: r.acts.clone(), pre: None };
                                                out.violation = Some((v, case));
                                                return;
                                            }
                                        }
                                    }
                                }
                            }
                        }
                    }
                });
            }
        }
    });
    res.into_inner().unwrap()
}
