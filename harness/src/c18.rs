//! C18: generated graph families on which an every-path walk is exponential.

use proptest::prelude::RngCore;
use proptest::test_runner::{RngAlgorithm, TestRng};
use serde_json::Value;

use crate::builder::{build_decoded, build_recorded, check_c13, check_c18, BuildCase, BuildFacts};
use crate::model::{root_path_count, user_edges, GraphSpec, Kind, TestFn};
use crate::violation::Violation;
use crate::violation::hash_of;

/// CPU time consumed by the calling thread, in seconds (immune to the thread
/// being descheduled on a loaded machine, unlike the wall clock).
pub fn thread_cpu_s() -> f64 {
    let mut ts = libc::timespec {
        tv_sec: 0,
        tv_nsec: 0,
    };
    // SAFETY: plain syscall writing into a local struct.
    unsafe {
        libc::clock_gettime(libc::CLOCK_THREAD_CPUTIME_ID, &mut ts);
    }
    ts.tv_sec as f64 + ts.tv_nsec as f64 * 1e-9
}

/// CPU budget for one `build()` of a family instance (n <= 130).  On the
/// repaired tree the largest instance needs a few milliseconds; the budget is
/// two to three orders of magnitude above that.
pub const BUILD_CPU_BUDGET_S: f64 = 1.5;

fn plain_fns(n: usize) -> Vec<TestFn> {
    (0..n)
        .map(|id| TestFn {
            id,
            // a few writers so that the augmenter has work to do as well
            reads: if id % 3 == 1 { vec![0] } else { vec![] },
            writes: if id % 5 == 0 { vec![0] } else { vec![] },
        })
        .collect()
}

fn permutation(rng: &mut TestRng, n: usize) -> Vec<usize> {
    let mut p: Vec<usize> = (0..n).collect();
    for i in (1..n).rev() {
        let j = (rng.next_u64() % (i as u64 + 1)) as usize;
        p.swap(i, j);
    }
    p
}

/// Edges given over "logical" positions 0..n (forward only); labels permuted,
/// call order shuffled.
fn instance(rng: &mut TestRng, n: usize, logical: Vec<(usize, usize)>, access: bool) -> BuildCase {
    let label = permutation(rng, n);
    let mut edges: Vec<(usize, usize, Kind)> = logical
        .into_iter()
        .map(|(a, b)| {
            (
                label[a],
                label[b],
                if rng.next_u32() % 2 == 0 {
                    Kind::Logic
                } else {
                    Kind::Contains
                },
            )
        })
        .collect();
    for i in (1..edges.len()).rev() {
        let j = (rng.next_u64() % (i as u64 + 1)) as usize;
        edges.swap(i, j);
    }
    BuildCase {
        spec: GraphSpec {
            fns: if access {
                plain_fns(n)
            } else {
                // no data access at all: the augmenter adds nothing, so parts that the
                // user left disconnected stay disconnected during the whole build
                (0..n)
                    .map(|id| TestFn {
                        id,
                        reads: vec![],
                        writes: vec![],
                    })
                    .collect()
            },
            edges,
            batches: vec![],
            add_mode: 0,
        },
        fail_pos: 0,
        mutation: None,
        labels: vec![],
        walks: vec![],
    }
}

pub fn complete_dag(n: usize) -> Vec<(usize, usize)> {
    (0..n)
        .flat_map(|i| (i + 1..n).map(move |j| (i, j)))
        .collect()
}

pub fn layered(width: usize, layers: usize) -> Vec<(usize, usize)> {
    let mut e = vec![];
    for l in 0..layers.saturating_sub(1) {
        for a in 0..width {
            for b in 0..width {
                e.push((l * width + a, (l + 1) * width + b));
            }
        }
    }
    e
}

/// Is the rank computation within its bound on a small probe (complete DAG,
/// n = 16: 65 535 root paths, bound 272)?  Costs ~1 ms on an exponential tree.
pub fn probe_polynomial() -> bool {
    let n = 16;
    let case = BuildCase {
        spec: GraphSpec {
            fns: plain_fns(n),
            edges: complete_dag(n)
                .into_iter()
                .map(|(a, b)| (a, b, Kind::Logic))
                .collect(),
            batches: vec![],
            add_mode: 0,
        },
        fail_pos: 0,
        mutation: None,
        labels: vec![],
        walks: vec![],
    };
    match build_recorded(&case.spec) {
        Ok(b) => b.rank_visits <= (n * n + n) as u64,
        Err(_) => true,
    }
}

pub struct FamilyResult {
    pub instances: u64,
    pub nontrivial_hashes: Vec<u64>,
    pub violation: Option<(Violation, BuildCase)>,
    pub samples: Vec<Value>,
    pub max_n: usize,
    pub max_paths: u64,
    pub max_build_cpu_s: f64,
}

pub fn families(thorough: bool, seed: u64) -> FamilyResult {
    let mut sb = [0u8; 32];
    sb[..8].copy_from_slice(&seed.to_le_bytes());
    let mut rng = TestRng::from_seed(RngAlgorithm::ChaCha, &sb);
    let mut cases: Vec<(u64, BuildCase, String)> = vec![];
    let mut push = |rng: &mut TestRng, n: usize, logical: Vec<(usize, usize)>, what: String| {
        for k in 0..2 {
            let c = instance(rng, n, logical.clone(), k == 0);
            let ue = user_edges(n, &c.spec.flat_calls()).edges;
            cases.push((root_path_count(n, &ue), c, what.clone()));
        }
    };
    // Sizes are the same in both tiers: on a polynomial tree every instance builds
    // in milliseconds, and on an exponential one the walk (sorted by explosiveness)
    // stops at the first instance over a bound.
    let complete_sizes: Vec<usize> = if thorough {
        vec![3, 4, 6, 8, 10, 12, 14, 16, 18, 20, 22, 24, 28, 32, 40, 48, 64, 96]
    } else {
        vec![3, 4, 6, 8, 10, 12, 14, 16, 18, 20, 24, 32, 48, 64]
    };
    for &n in &complete_sizes {
        push(&mut rng, n, complete_dag(n), format!("complete DAG n={n}"));
    }
    let max_total = if thorough { 96 } else { 64 };
    for w in 2..=4usize {
        let mut l = 2;
        while w * l <= max_total {
            push(&mut rng, w * l, layered(w, l), format!("layered complete width={w} layers={l}"));
            l += if l < 8 { 1 } else { 2 };
        }
    }
    // layered-complete part plus a disjoint chain whose functions have equal or
    // higher rank (the augmenter asks for paths between the two parts)
    for w in 2..=4usize {
        let mut l = 3;
        while w * l + l + 2 <= 128 {
            let mut e = layered(w, l);
            let base = w * l;
            let chain = l + 2;
            for i in 0..chain - 1 {
                e.push((base + i, base + i + 1));
            }
            push(&mut rng, base + chain, e, format!("layered width={w} layers={l} + disjoint chain of {chain}"));
            l += if l < 8 { 1 } else { 3 };
        }
    }
    // chains of diamonds (2^k equal-length paths)
    let mut k = 2;
    while 3 * k + 1 <= 130 {
        let mut e = vec![];
        for d in 0..k {
            let a = 3 * d;
            e.push((a, a + 1));
            e.push((a, a + 2));
            e.push((a + 1, a + 3));
            e.push((a + 2, a + 3));
        }
        push(&mut rng, 3 * k + 1, e, format!("chain of {k} diamonds"));
        k += if k < 10 { 2 } else { 6 };
    }
    // a multi-path region plus so many functions without any edge that the whole
    // graph has fewer edges than functions ("looks like a forest" by the counts)
    for k in [8usize, 14, 20, 26, 32] {
        let mut e = vec![];
        for d in 0..k {
            let a = 3 * d;
            e.push((a, a + 1));
            e.push((a, a + 2));
            e.push((a + 1, a + 3));
            e.push((a + 2, a + 3));
        }
        let iso = k + 2;
        push(&mut rng, 3 * k + 1 + iso, e, format!("chain of {k} diamonds + {iso} functions without edges (edges < functions)"));
    }
    for l in [10usize, 20, 30, 40] {
        let e = layered(2, l);
        let iso = e.len() - 2 * l + 3;
        push(&mut rng, 2 * l + iso, e, format!("layered width=2 layers={l} + {iso} functions without edges (edges < functions)"));
    }
    // re-convergence made of DATA edges: no (or few) user edges, the augmenter builds
    // the multi-path region itself
    for g in [4usize, 8, 12, 16, 20, 24, 28, 32, 36, 40] {
        // writer, reader, reader, writer, ... over one type, no user edge at all:
        // W -> {R, R} -> W -> ... (2^g paths through data edges)
        let n = 3 * g + 1;
        let fns: Vec<TestFn> = (0..n)
            .map(|id| TestFn {
                id,
                reads: if id % 3 != 0 { vec![0] } else { vec![] },
                writes: if id % 3 == 0 { vec![0] } else { vec![] },
            })
            .collect();
        let case = BuildCase { spec: GraphSpec { fns, edges: vec![], batches: vec![], add_mode: 0 }, fail_pos: 0, mutation: None, labels: vec![], walks: vec![] };
        cases.push((1u64 << g.min(62), case, format!("no user edges: writer, reader, reader, writer, ... over one type, {g} groups")));
    }
    for l in [8usize, 16, 24, 32, 40] {
        // two logic chains a and b; a_i and b_i write a type of their own; which of the
        // two was inserted first alternates per level, so the data edge between them
        // alternates its direction
        let n = 2 * l;
        let mut fns: Vec<TestFn> = Vec::with_capacity(n);
        let mut ida = vec![0usize; l];
        let mut idb = vec![0usize; l];
        for i in 0..l {
            let (first, second) = if i % 2 == 0 { (&mut ida, &mut idb) } else { (&mut idb, &mut ida) };
            first[i] = fns.len();
            fns.push(TestFn { id: fns.len(), reads: vec![], writes: vec![i as u8] });
            second[i] = fns.len();
            fns.push(TestFn { id: fns.len(), reads: vec![], writes: vec![i as u8] });
        }
        let mut edges = vec![];
        for i in 0..l - 1 {
            edges.push((ida[i], ida[i + 1], Kind::Logic));
            edges.push((idb[i], idb[i + 1], Kind::Contains));
        }
        let case = BuildCase { spec: GraphSpec { fns, edges, batches: vec![], add_mode: 0 }, fail_pos: 0, mutation: None, labels: vec![], walks: vec![] };
        cases.push((1u64 << (l / 2).min(62), case, format!("two chains of {l} with same-level write conflicts, insertion order alternating per level")));
    }
    // a reader above a 2-wide ladder without data access, plus several hundred edge-less
    // readers of another type (more data-accessing functions than fit a byte counter)
    for (layers, extra, top_first) in [(16usize, 260usize, true), (28, 300, true), (40, 300, true), (28, 300, false)] {
        let n = 1 + 2 * layers + extra;
        let mut fns: Vec<TestFn> = (0..n).map(|id| TestFn { id, reads: vec![], writes: vec![] }).collect();
        // the top reader (type 0) and the ladder below it, and `extra` edge-less readers
        // of type 1 inserted before or after them
        let (top, base, readers) = if top_first { (0, 1, 1 + 2 * layers) } else { (extra, extra + 1, 0) };
        for f in fns.iter_mut().skip(readers).take(extra) {
            f.reads = vec![1];
        }
        fns[top].reads = vec![0];
        let mut edges = vec![(top, base, Kind::Logic), (top, base + 1, Kind::Contains)];
        for l in 0..layers - 1 {
            for a in 0..2 {
                for b in 0..2 {
                    edges.push((base + 2 * l + a, base + 2 * (l + 1) + b, if (a + b) % 2 == 0 { Kind::Logic } else { Kind::Contains }));
                }
            }
        }
        let case = BuildCase { spec: GraphSpec { fns, edges, batches: vec![], add_mode: 0 }, fail_pos: 0, mutation: None, labels: vec![], walks: vec![] };
        cases.push((1u64 << layers.min(62), case, format!("{extra} edge-less readers + one reader above a 2-wide ladder of {layers} layers without data access")));
    }
    // a rejected call in the sequence: the multi-path region is declared, then an edge
    // from its last function back to a function that already has a predecessor is
    // requested (and rejected: it would close a cycle), then the graph is built
    for (w, l) in [(2usize, 12usize), (2, 24), (3, 12), (3, 20), (2, 40)] {
        let n = w * l;
        for access in [true, false] {
            let mut c = instance(&mut rng, n, layered(w, l), access);
            // logical node w (first function of the second layer) has predecessors;
            // find the labels through the first / last edges of the shuffled list
            let tos: Vec<usize> = c.spec.edges.iter().map(|e| e.1).collect();
            let froms: Vec<usize> = c.spec.edges.iter().map(|e| e.0).collect();
            // a sink (never a source) and a function with a predecessor
            let sink = tos.iter().copied().find(|t| !froms.contains(t));
            let with_pred = tos.iter().copied().find(|t| froms.contains(t));
            if let (Some(sink), Some(mid)) = (sink, with_pred) {
                c.spec.edges.push((sink, mid, Kind::Logic));
            }
            let ue = user_edges(n, &c.spec.flat_calls()).edges;
            cases.push((root_path_count(n, &ue), c, format!("layered width={w} layers={l} + one rejected back edge into a function that has a predecessor")));
        }
    }
    // dense random DAGs
    let n_dense = if thorough { 60 } else { 20 };
    for k in 0..n_dense {
        let n = 8 + (rng.next_u64() % if thorough { 40 } else { 17 }) as usize;
        let pct = 40 + (rng.next_u64() % 55);
        let logical: Vec<(usize, usize)> = complete_dag(n)
            .into_iter()
            .filter(|_| rng.next_u64() % 100 < pct)
            .collect();
        let c = instance(&mut rng, n, logical, k % 2 == 0);
        let ue = user_edges(n, &c.spec.flat_calls()).edges;
        cases.push((root_path_count(n, &ue), c, format!("dense random #{k} n={n} p={pct}%")));
    }
    cases.sort_by_key(|c| (c.0, c.1.spec.n()));
    let mut res = FamilyResult {
        instances: 0,
        nontrivial_hashes: vec![],
        violation: None,
        samples: vec![],
        max_n: 0,
        max_paths: 0,
        max_build_cpu_s: 0.0,
    };
    for (paths, case, what) in cases {
        let n = case.spec.n();
        let cpu0 = thread_cpu_s();
        let b = match build_recorded(&case.spec) {
            Ok(b) => b,
            Err(m) => {
                res.violation = Some((
                    Violation {
                        prop: "C18".into(),
                        kind: "build-panicked".into(),
                        msg: m,
                    },
                    case,
                ));
                return res;
            }
        };
        let cpu = thread_cpu_s() - cpu0;
        res.max_build_cpu_s = res.max_build_cpu_s.max(cpu);
        res.instances += 1;
        res.max_n = res.max_n.max(n);
        res.max_paths = res.max_paths.max(paths);
        if paths > (n * n + n) as u64 {
            res.nontrivial_hashes.push(hash_of(&case.spec));
        }
        if matches!(res.instances, 5 | 25 | 60) {
            let mut d = build_decoded(&case);
            d["family"] = Value::String(what.clone());
            d["root_paths"] = Value::String(paths.to_string());
            d["rank_visits"] = Value::from(b.rank_visits);
            res.samples.push(d);
        }
        let f = BuildFacts::new(&case.spec, &b.g);
        let mut viol = check_c18(&b, &f);
        // the ranks must also still be right (a "fast but wrong" computation is C13's)
        let _ = check_c13(&b, &f);
        if viol.is_empty() && cpu > BUILD_CPU_BUDGET_S {
            // hook-free complement: work that no counter sees (e.g. an exponential
            // reachability search in the augmenter) still shows as CPU time.  The
            // instances are sorted by explosiveness, so the first one over budget
            // stops the walk before an instance that would take hours.
            viol.push(Violation {
                prop: "C18".into(),
                kind: "build-cpu-time-exceeds-budget".into(),
                msg: format!(
                    "build() of {n} functions used {cpu:.2} s of CPU (budget {BUILD_CPU_BUDGET_S} s; the largest instance on a polynomial tree needs milliseconds)"
                ),
            });
        }
        if let Some(v) = viol.pop() {
            let mut v = v;
            v.msg = format!("{what}: {}", v.msg);
            res.violation = Some((v, case));
            return res;
        }
    }
    res
}
