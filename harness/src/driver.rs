//! proptest-driven parallel search.  A run is a pure function of the code and
//! `VERIF_SEED`: a fixed number of workers, each with its own `TestRunner`
//! seeded from `VERIF_SEED ^ worker`, no failure persistence, no wall clock.

use std::collections::{BTreeMap, HashSet};
use std::sync::atomic::{AtomicBool, AtomicU64, Ordering};
use std::sync::Mutex;

use proptest::collection::vec as pvec;
use proptest::prelude::*;
use proptest::test_runner::{Config, RngSeed, TestCaseError, TestError, TestRunner};
use serde_json::{json, Value};

use crate::violation::Violation;

pub struct CaseReport {
    /// Violations of any property found on this case.
    pub violations: Vec<Violation>,
    pub nontrivial: bool,
    /// Hash of the decoded case (distinctness).
    pub hash: u64,
    pub labels: Vec<String>,
    /// Decoded case, only filled when `want_decoded`.
    pub decoded: Option<Value>,
    /// Number of executions of the code under test this case performed.
    pub executions: u64,
}

pub trait Check: Sync {
    fn name(&self) -> String;
    /// Maximum length of each tape.
    fn tape_lens(&self) -> Vec<usize>;
    fn run_case(&self, tapes: &[Vec<u16>], want_decoded: bool) -> CaseReport;
    /// Run the case `pre` and then the case `tapes` on one fresh thread and report
    /// on the second one (its decoded form must contain the first, so that a
    /// replay does the same).  `None`: this check has no such form.
    fn run_after(&self, _pre: &[Vec<u16>], _tapes: &[Vec<u16>]) -> Option<CaseReport> {
        None
    }
}

#[derive(Default, Clone)]
pub struct Stats {
    pub evaluations: u64,
    pub executions: u64,
    pub nontrivial: HashSet<u64>,
    pub labels: BTreeMap<String, u64>,
    pub samples: Vec<Value>,
    /// Violations of *other* properties seen on the way (informational).
    pub other_props: BTreeMap<String, u64>,
    /// Violations suppressed because they match an open known finding.
    pub known: BTreeMap<String, u64>,
}

impl Stats {
    pub fn merge(&mut self, o: Stats) {
        self.evaluations += o.evaluations;
        self.executions += o.executions;
        self.nontrivial.extend(o.nontrivial);
        for (k, v) in o.labels {
            *self.labels.entry(k).or_insert(0) += v;
        }
        for s in o.samples {
            if self.samples.len() < 12 {
                self.samples.push(s);
            }
        }
        for (k, v) in o.other_props {
            *self.other_props.entry(k).or_insert(0) += v;
        }
        for (k, v) in o.known {
            *self.known.entry(k).or_insert(0) += v;
        }
    }
}

#[derive(Clone, Debug)]
pub struct Failure {
    pub check: String,
    pub violation: Violation,
    pub tapes: Vec<Vec<u16>>,
    pub decoded: Value,
}

pub struct SearchResult {
    pub stats: Stats,
    pub failure: Option<Failure>,
}

/// Classifier deciding whether a violation of the target property matches an
/// open known finding (returns its key).
pub type KnownFn<'a> = &'a (dyn Fn(&Violation, &Value) -> Option<String> + Sync);

/// A panic escaping from a case is a defect of the harness (panics of the code
/// under test are caught by the engines): report and give no verdict.
fn guarded(check: &dyn Check, tapes: &[Vec<u16>], want: bool) -> CaseReport {
    match std::panic::catch_unwind(std::panic::AssertUnwindSafe(|| check.run_case(tapes, want))) {
        Ok(r) => r,
        Err(p) => {
            let m = p
                .downcast_ref::<&str>()
                .map(|s| s.to_string())
                .or(p.downcast_ref::<String>().cloned())
                .unwrap_or_default();
            println!("INCONCLUSIVE: the harness itself panicked on a case: {m}; tapes={tapes:?}");
            std::process::exit(2);
        }
    }
}

fn sample_points(i: u64) -> bool {
    matches!(i, 1 | 7 | 60 | 500 | 4000 | 30000)
}

/// Run `cases` cases of `check` split over `workers` workers.
pub fn search(
    check: &dyn Check,
    prop: &str,
    cases: u64,
    workers: u64,
    seed: u64,
    known: KnownFn,
) -> SearchResult {
    let stop = AtomicBool::new(false);
    let total = Mutex::new(Stats::default());
    let failure: Mutex<Option<Failure>> = Mutex::new(None);
    let lens = check.tape_lens();
    let done_cases = AtomicU64::new(0);
    std::thread::scope(|sc| {
        for w in 0..workers {
            let per = cases / workers + if w < cases % workers { 1 } else { 0 };
            if per == 0 {
                continue;
            }
            let (stop, total, failure, lens, done_cases) =
                (&stop, &total, &failure, &lens, &done_cases);
            sc.spawn(move || {
                let cfg = Config {
                    cases: per as u32,
                    failure_persistence: None,
                    rng_seed: RngSeed::Fixed(seed ^ (w.wrapping_mul(0x9E37_79B9_7F4A_7C15)).wrapping_add(w)),
                    max_shrink_iters: 2500,
                    max_global_rejects: 1,
                    ..Config::default()
                };
                let mut runner = TestRunner::new(cfg);
                let strategy: Vec<_> = lens
                    .iter()
                    .map(|l| pvec(any::<u16>(), 0..=*l))
                    .collect();
                let stats = std::cell::RefCell::new(Stats::default());
                let failed = std::cell::Cell::new(false);
                // the last cases this worker thread ran, and the first failing one as it
                // was observed (a failure may depend on what the thread did before)
                let history: std::cell::RefCell<std::collections::VecDeque<Vec<Vec<u16>>>> = Default::default();
                let first_fail: std::cell::RefCell<Option<(Vec<Vec<u16>>, Violation)>> = Default::default();
                let res = runner.run(&strategy, |tapes| {
                    let mut stats = stats.borrow_mut();
                    let was_failed = failed.get();
                    if !was_failed && stop.load(Ordering::Relaxed) {
                        // another worker found a failure: finish quickly
                        return Ok(());
                    }
                    let want = !was_failed && (sample_points(stats.evaluations + 1));
                    let rep = guarded(check, &tapes, want || was_failed);
                    let mut fatal: Option<Violation> = None;
                    for v in &rep.violations {
                        if v.prop == prop {
                            let dec = rep.decoded.clone().unwrap_or(Value::Null);
                            let dec = if dec.is_null() && !was_failed {
                                // need the decoded case to classify
                                guarded(check, &tapes, true).decoded.unwrap_or(Value::Null)
                            } else {
                                dec
                            };
                            if let Some(key) = known(v, &dec) {
                                if !was_failed {
                                    *stats.known.entry(key).or_insert(0) += 1;
                                }
                            } else if fatal.is_none() {
                                fatal = Some(v.clone());
                            }
                        } else if !was_failed {
                            *stats.other_props.entry(v.prop.clone()).or_insert(0) += 1;
                        }
                    }
                    if !was_failed {
                        stats.evaluations += 1;
                        stats.executions += rep.executions;
                        done_cases.fetch_add(1, Ordering::Relaxed);
                        if rep.nontrivial {
                            stats.nontrivial.insert(rep.hash);
                        }
                        for l in rep.labels {
                            *stats.labels.entry(l).or_insert(0) += 1;
                        }
                        if want {
                            if let Some(d) = rep.decoded {
                                stats.samples.push(d);
                            }
                        }
                    }
                    if !was_failed && fatal.is_none() {
                        let mut h = history.borrow_mut();
                        h.push_back(tapes.clone());
                        if h.len() > 48 {
                            h.pop_front();
                        }
                    }
                    if let Some(v) = fatal {
                        if !was_failed && stop.swap(true, Ordering::SeqCst) {
                            // another worker is already shrinking a failure
                            return Ok(());
                        }
                        if !was_failed {
                            *first_fail.borrow_mut() = Some((tapes.clone(), v.clone()));
                        }
                        failed.set(true);
                        return Err(TestCaseError::fail(format!("{}: {}", v.kind, v.msg)));
                    }
                    Ok(())
                });
                if let Err(TestError::Fail(reason, tapes)) = res {
                    let reason = reason.to_string();
                    // finishing shrink of ours, then re-run the minimal case to get
                    // violation + decoded form
                    let tapes = shrink_tapes(check, prop, tapes, known, 1500);
                    let rep = guarded(check, &tapes, true);
                    let dec = rep.decoded.clone().unwrap_or(Value::Null);
                    let viol = rep
                        .violations
                        .iter()
                        .find(|v| v.prop == prop && known(v, &dec).is_none())
                        .cloned();
                    let _ = &reason;
                    let (viol, tapes, dec) = if viol.is_some() {
                        (viol, tapes, dec)
                    } else {
                        // The minimal case does not show the failure again: it depended on
                        // what this thread did before.  Never drop it (that would end the
                        // search of every worker without a verdict): look for one earlier
                        // case after which it shows again on a fresh thread, else report it
                        // as observed.
                        let (ft, fv) = first_fail.borrow().clone().expect("first failure recorded");
                        let mut found = None;
                        for pre in history.borrow().iter().rev() {
                            if let Some(rep) = check.run_after(pre, &ft) {
                                let d = rep.decoded.clone().unwrap_or(Value::Null);
                                if let Some(v) = rep.violations.iter().find(|v| v.prop == prop && known(v, &d).is_none()) {
                                    let mut v = v.clone();
                                    v.msg = format!("{} [only after another run on the same thread: the replay file contains that run]", v.msg);
                                    found = Some((Some(v), ft.clone(), d));
                                    break;
                                }
                            } else {
                                break;
                            }
                        }
                        found.unwrap_or_else(|| {
                            let d = guarded(check, &ft, true).decoded.unwrap_or(Value::Null);
                            let mut v = fv.clone();
                            v.msg = format!("{} [observed once, after other cases on the same thread; the case alone does not show it, so the replay file is not expected to reproduce it]", v.msg);
                            (Some(v), ft, d)
                        })
                    };
                    if let Some(violation) = viol {
                        let mut f = failure.lock().unwrap();
                        if f.is_none() {
                            *f = Some(Failure {
                                check: check.name(),
                                violation,
                                tapes,
                                decoded: dec,
                            });
                        }
                    }
                } else if let Err(TestError::Abort(r)) = res {
                    eprintln!("proptest aborted: {r}");
                }
                total.lock().unwrap().merge(stats.into_inner());
            });
        }
    });
    SearchResult {
        stats: total.into_inner().unwrap(),
        failure: failure.into_inner().unwrap(),
    }
}

pub fn stats_json(s: &Stats) -> Value {
    json!({
        "evaluations": s.evaluations,
        "executions_of_code_under_test": s.executions,
        "distinct_nontrivial": s.nontrivial.len(),
        "labels": s.labels,
        "other_property_hits": s.other_props,
        "known_finding_hits": s.known,
    })
}

/// Deterministic tape shrinker (finishing step after proptest's own shrinking,
/// and the only shrinker for libFuzzer artifacts): chunk deletion, truncation,
/// zeroing and halving of values, kept while the *same property* still fails.
pub fn shrink_tapes(
    check: &dyn Check,
    prop: &str,
    tapes: Vec<Vec<u16>>,
    known: KnownFn,
    max_evals: usize,
) -> Vec<Vec<u16>> {
    let fails = |t: &[Vec<u16>]| -> bool {
        let rep = guarded(check, t, true);
        let dec = rep.decoded.clone().unwrap_or(Value::Null);
        rep.violations
            .iter()
            .any(|v| v.prop == prop && known(v, &dec).is_none())
    };
    let mut best = tapes;
    if !fails(&best) {
        return best;
    }
    let mut evals = 0usize;
    let mut progress = true;
    while progress && evals < max_evals {
        progress = false;
        for ti in 0..best.len() {
            // truncate
            let mut len = best[ti].len();
            while len > 0 && evals < max_evals {
                let mut cand = best.clone();
                cand[ti].truncate(len / 2);
                evals += 1;
                if fails(&cand) {
                    best = cand;
                    len = best[ti].len();
                    progress = true;
                } else {
                    break;
                }
            }
            // delete chunks
            let mut chunk = (best[ti].len() / 2).max(1);
            while chunk >= 1 && evals < max_evals {
                let mut i = 0;
                while i + chunk <= best[ti].len() && evals < max_evals {
                    let mut cand = best.clone();
                    cand[ti].drain(i..i + chunk);
                    evals += 1;
                    if fails(&cand) {
                        best = cand;
                        progress = true;
                    } else {
                        i += chunk;
                    }
                }
                if chunk == 1 {
                    break;
                }
                chunk /= 2;
            }
            // zero / halve values
            for i in 0..best[ti].len() {
                if evals >= max_evals {
                    break;
                }
                if best[ti][i] == 0 {
                    continue;
                }
                let mut cand = best.clone();
                cand[ti][i] = 0;
                evals += 1;
                if fails(&cand) {
                    best = cand;
                    progress = true;
                    continue;
                }
                let mut cand = best.clone();
                cand[ti][i] /= 2;
                evals += 1;
                if fails(&cand) {
                    best = cand;
                    progress = true;
                }
            }
        }
    }
    best
}

// ------------------------------------------------------------------ size ladder
/// Deterministic "size ladder": one check per exact size, `reps` pseudo-random
/// cases each, so that *every* number of functions in the range is exercised in
/// every run (the random tier draws sizes, and a change keyed on one size between
/// the boundary values may never be drawn).  The tapes are a pure function of
/// (seed, size, repetition); no shrinking: the case that fails is the replay (its
/// size is the point).
pub struct Ladder {
    pub stats: Stats,
    pub sizes: (usize, usize),
    pub failure: Option<Failure>,
}

fn ladder_tapes(lens: &[usize], seed: u64, n: usize, rep: u64) -> Vec<Vec<u16>> {
    let mut x = seed ^ (n as u64).wrapping_mul(0x9E37_79B9_7F4A_7C15) ^ rep.wrapping_mul(0xD6E8_FEB8_6659_FD93);
    let mut next = move || {
        // splitmix64
        x = x.wrapping_add(0x9E37_79B9_7F4A_7C15);
        let mut z = x;
        z = (z ^ (z >> 30)).wrapping_mul(0xBF58_476D_1CE4_E5B9);
        z = (z ^ (z >> 27)).wrapping_mul(0x94D0_49BB_1331_11EB);
        z ^ (z >> 31)
    };
    lens.iter().map(|l| (0..*l).map(|_| (next() >> 24) as u16).collect()).collect()
}

pub fn size_ladder(prop: &str, sizes: &[usize], reps: u64, seed: u64, workers: usize, make: &(dyn Fn(usize) -> Box<dyn Check> + Sync), known: KnownFn) -> Ladder {
    let total = Mutex::new(Stats::default());
    let failure: Mutex<Option<(usize, Failure)>> = Mutex::new(None);
    let next = AtomicU64::new(0);
    let stop = AtomicBool::new(false);
    std::thread::scope(|sc| {
        for _ in 0..workers.max(1) {
            let (total, failure, next, stop) = (&total, &failure, &next, &stop);
            sc.spawn(move || {
                let mut stats = Stats::default();
                loop {
                    let i = next.fetch_add(1, Ordering::Relaxed) as usize;
                    if i >= sizes.len() || stop.load(Ordering::Relaxed) {
                        break;
                    }
                    let n = sizes[i];
                    let check = make(n);
                    let lens = check.tape_lens();
                    for rep in 0..reps {
                        let tapes = ladder_tapes(&lens, seed, n, rep);
                        let r = guarded(check.as_ref(), &tapes, true);
                        let dec = r.decoded.clone().unwrap_or(Value::Null);
                        stats.evaluations += 1;
                        stats.executions += r.executions;
                        if r.nontrivial {
                            stats.nontrivial.insert(r.hash);
                        }
                        for l in r.labels {
                            *stats.labels.entry(format!("ladder:{l}")).or_insert(0) += 1;
                        }
                        let mut fatal = None;
                        for v in &r.violations {
                            if v.prop == prop {
                                if let Some(key) = known(v, &dec) {
                                    *stats.known.entry(key).or_insert(0) += 1;
                                } else if fatal.is_none() {
                                    fatal = Some(v.clone());
                                }
                            } else {
                                *stats.other_props.entry(v.prop.clone()).or_insert(0) += 1;
                            }
                        }
                        if let Some(mut v) = fatal {
                            v.msg = format!("size ladder, exactly {n} functions: {}", v.msg);
                            let mut f = failure.lock().unwrap();
                            // keep the smallest failing size (deterministic report)
                            if f.as_ref().map_or(true, |(m, _)| n < *m) {
                                *f = Some((n, Failure { check: format!("size-ladder:{}", check.name()), violation: v, tapes: tapes.clone(), decoded: dec.clone() }));
                            }
                            stop.store(true, Ordering::Relaxed);
                            break;
                        }
                    }
                }
                total.lock().unwrap().merge(stats);
            });
        }
    });
    Ladder {
        stats: total.into_inner().unwrap(),
        sizes: (sizes.first().copied().unwrap_or(0), sizes.last().copied().unwrap_or(0)),
        failure: failure.into_inner().unwrap().map(|(_, f)| f),
    }
}
