//! Executing one generated case: build the graph through the public builder,
//! drive the engine by a schedule (tape or recorded action list), evaluate all
//! oracles.

use serde::{Deserialize, Serialize};

use crate::explore::{Act, Consumer, Ev, GRef, Ret, Runner, Stepper};
use crate::gen::RunCfg;
use crate::model::{build_graph, GraphFacts, GraphSpec};
use crate::oracle::{check_run, RunStats, Violation};
use crate::tape::Tape;

/// Decoded single-run case; this (not the tapes) is what a replay file stores
/// and what is replayed.
#[derive(Clone, Debug, PartialEq, Eq, Hash, Serialize, Deserialize)]
pub struct SingleCase {
    pub spec: GraphSpec,
    pub cfg: RunCfg,
    pub acts: Vec<Act>,
}

pub enum Schedule<'a, 'b> {
    /// Choices from a tape; after `max_actions` the default policy finishes the
    /// run; the last field is the action count at which the run is dropped.
    Tape(&'a mut Tape<'b>, usize, Option<usize>),
    /// Recorded actions (inapplicable ones are skipped), then the default policy.
    Replay(&'a [Act]),
    /// Recorded actions, strictly: stop at the first inapplicable one.
    Strict(&'a [Act]),
}

pub struct SingleResult {
    pub trace: Vec<Ev>,
    pub acts: Vec<Act>,
    pub ret: Ret,
    pub violations: Vec<Violation>,
    pub stats: RunStats,
    pub facts: GraphFacts,
    pub polls: usize,
    /// For `Schedule::Strict`: every recorded action was applicable.
    pub strict_ok: bool,
}

pub const HARD_ACTION_CAP: usize = 200_000;

pub fn choose(t: &mut Tape, wants_poll: bool, opts: &[Act]) -> Act {
    if wants_poll {
        // opts[0] is Poll
        if opts.len() == 1 || t.below(3) < 2 {
            return opts[0];
        }
        return opts[1 + t.below(opts.len() - 1)];
    }
    opts[t.below(opts.len())]
}

/// Drive a stepper to completion (or until it is stuck).  Returns whether all
/// strict actions applied.
pub fn drive(s: &mut dyn Stepper, schedule: Schedule) -> bool {
    let mut k = 0usize;
    let mut strict_ok = true;
    match schedule {
        Schedule::Tape(t, max_actions, abort_after) => {
            while !s.done() && !s.stuck() && k < HARD_ACTION_CAP {
                if abort_after == Some(k) && s.apply(Act::Abort) {
                    k += 1;
                    continue;
                }
                let opts = s.options();
                if opts.is_empty() {
                    break;
                }
                let a = if k >= max_actions {
                    opts[0]
                } else {
                    choose(t, s.wants_poll(), &opts)
                };
                s.apply(a);
                k += 1;
            }
        }
        Schedule::Replay(acts) => {
            for a in acts {
                if s.done() {
                    break;
                }
                s.apply(*a);
            }
            finish_default(s);
        }
        Schedule::Strict(acts) => {
            for a in acts {
                if s.done() || !s.apply(*a) {
                    strict_ok = false;
                    break;
                }
            }
        }
    }
    strict_ok
}

/// Default policy: poll when woken, otherwise complete the lowest candidate.
pub fn finish_default(s: &mut dyn Stepper) {
    let mut k = 0usize;
    while !s.done() && !s.stuck() && k < HARD_ACTION_CAP {
        let opts = s.options();
        if opts.is_empty() {
            break;
        }
        s.apply(opts[0]);
        k += 1;
    }
}

fn final_ret(s: &dyn Stepper) -> Ret {
    match s.ret() {
        Some(r) if s.done() => r.clone(),
        Some(Ret::Panic(m)) => Ret::Panic(m.clone()),
        _ => {
            if s.stuck() {
                Ret::Deadlock
            } else {
                Ret::Livelock
            }
        }
    }
}

pub fn run_single(spec: &GraphSpec, cfg: &RunCfg, schedule: Schedule) -> SingleResult {
    let mut g = build_graph(spec);
    let facts = GraphFacts::new(spec, &g);
    run_on(&mut g, facts, cfg, schedule)
}

/// Run on an existing graph value (used by histories).
pub fn run_on(
    g: &mut fn_graph::FnGraph<crate::model::TestFn>,
    facts: GraphFacts,
    cfg: &RunCfg,
    schedule: Schedule,
) -> SingleResult {
    let (trace, acts, ret, engine, polls, strict_ok) = if cfg.api.shape.is_stream() {
        let mut c = Consumer::new(&*g, cfg);
        let ok = drive(&mut c, schedule);
        (
            c.trace(),
            c.acts().to_vec(),
            final_ret(&c),
            c.engine_violations(),
            c.polls(),
            ok,
        )
    } else {
        let mut r = Runner::new(GRef::Mut(g), cfg);
        let ok = drive(&mut r, schedule);
        (
            r.trace(),
            r.acts().to_vec(),
            final_ret(&r),
            r.engine_violations(),
            r.polls(),
            ok,
        )
    };
    let (violations, stats) = check_run(&facts, cfg, &trace, &acts, &ret, &engine);
    SingleResult {
        trace,
        acts,
        ret,
        violations,
        stats,
        facts,
        polls,
        strict_ok,
    }
}
