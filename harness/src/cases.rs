//! Executing one generated case: build the graph through the public builder,
//! drive the engine by a schedule (tape or recorded action list), evaluate all
//! oracles.

use serde::{Deserialize, Serialize};

use crate::explore::{in_task_poll, in_task_poll_burn, Act, Consumer, Ev, GRef, Ret, Runner, Stepper};
use crate::gen::RunCfg;
use crate::model::{build_graph, GraphFacts, GraphSpec};
use crate::oracle::{check_run, RunStats, Violation};
use crate::tape::Tape;

/// Decoded single-run case; this (not the tapes) is what a replay file stores
/// and what is replayed.
#[derive(Clone, Debug, PartialEq, Eq, Hash, Serialize, Deserialize)]
pub struct SingleCase {
    pub spec: GraphSpec,
    pub cfg: RunCfg,
    pub acts: Vec<Act>,
    /// What the (fresh) thread did before this run: another run, on another graph.
    /// A run must not depend on it (thread-local scratch state of the library).
    #[serde(default)]
    pub pre: Option<Box<SingleCase>>,
}

pub enum Schedule<'a, 'b> {
    /// Choices from a tape; after `max_actions` the default policy finishes the
    /// run; the last field is the action count at which the run is dropped.
    Tape(&'a mut Tape<'b>, usize, Option<usize>),
    /// Recorded actions (inapplicable ones are skipped), then the default policy.
    Replay(&'a [Act]),
    /// Recorded actions, strictly: stop at the first inapplicable one.
    Strict(&'a [Act]),
}

pub struct SingleResult {
    pub trace: Vec<Ev>,
    pub acts: Vec<Act>,
    pub ret: Ret,
    pub violations: Vec<Violation>,
    pub stats: RunStats,
    pub facts: GraphFacts,
    pub polls: usize,
    /// For `Schedule::Strict`: every recorded action was applicable.
    pub strict_ok: bool,
}

pub const HARD_ACTION_CAP: usize = 200_000;

/// Schedule styles (drawn once per run): how eagerly the polling task runs
/// when it has been woken.
#[derive(Clone, Copy, Debug, PartialEq, Eq)]
pub enum Style {
    /// Poll with probability 2/3 when woken.
    Mixed,
    /// Rarely poll while there is anything else to do: long batches of
    /// completions / drops between two polls.
    Batchy,
    /// Always poll as soon as woken (one completion between polls).
    Eager,
    /// Collect, then release: poll until Pending, then complete / drop
    /// *everything* in flight without polling, then poll again (a
    /// `ready_chunks`-like consumer, a barrier-like set of user futures).
    Chunks,
}

impl Style {
    pub fn from_tape(t: &mut Tape) -> Style {
        match t.below(6) {
            3 => Style::Batchy,
            4 => Style::Eager,
            5 => Style::Chunks,
            _ => Style::Mixed,
        }
    }
}

pub fn choose(t: &mut Tape, wants_poll: bool, opts: &[Act]) -> Act {
    choose_styled(t, wants_poll, false, opts, Style::Mixed)
}

pub fn choose_styled(t: &mut Tape, wants_poll: bool, pending: bool, opts: &[Act], style: Style) -> Act {
    if style == Style::Chunks {
        let poll_ix = opts.iter().position(|a| *a == Act::Poll);
        let completes: Vec<Act> = opts.iter().copied().filter(|a| matches!(a, Act::Complete(_))).collect();
        if !pending || completes.is_empty() {
            if let Some(i) = poll_ix {
                return opts[i];
            }
        } else {
            return completes[t.below(completes.len())];
        }
    }
    if wants_poll {
        // opts[0] is Poll
        if opts.len() == 1 {
            return opts[0];
        }
        let poll = match style {
            Style::Mixed => t.below(3) < 2,
            Style::Batchy => t.below(48) == 0,
            Style::Eager | Style::Chunks => true,
        };
        if poll {
            return opts[0];
        }
        return opts[1 + t.below(opts.len() - 1)];
    }
    opts[t.below(opts.len())]
}

/// Drive a stepper to completion (or until it is stuck).  Returns whether all
/// strict actions applied.  With `coop` the actions are executed inside tokio
/// task polls ("windows" that end with `Act::Yield`): the cooperative budget is
/// shared by all polls of a window and observations are made when it ends.
pub fn drive(s: &mut dyn Stepper, schedule: Schedule, coop: bool) -> bool {
    let mut k = 0usize;
    let mut strict_ok = true;
    match schedule {
        Schedule::Tape(t, max_actions, abort_after) => {
            let style = Style::from_tape(t);
            if !coop {
                while !s.done() && !s.stuck() && k < HARD_ACTION_CAP {
                    if abort_after == Some(k) && s.apply(Act::Abort) {
                        k += 1;
                        continue;
                    }
                    let opts = s.options();
                    if opts.is_empty() {
                        break;
                    }
                    let a = if k >= max_actions {
                        opts[0]
                    } else {
                        choose_styled(t, s.wants_poll(), s.pending(), &opts, style)
                    };
                    s.apply(a);
                    k += 1;
                }
            } else {
                while !s.done() && !s.stuck() && k < HARD_ACTION_CAP {
                    let wsize = if k >= max_actions {
                        1
                    } else {
                        match t.below(4) {
                            0 => 1,
                            1 => 1 + t.below(8),
                            2 => 1 + t.below(64),
                            _ => 1 + t.below(400),
                        }
                    };
                    let burn = if k >= max_actions {
                        0
                    } else {
                        match t.below(4) {
                            0 | 1 => 0,
                            2 => t.below(128),
                            _ => 96 + t.below(32),
                        }
                    };
                    if burn > 0 {
                        s.note_burn(burn);
                    }
                    in_task_poll_burn(burn, || {
                        s.set_deferred(true);
                        for _ in 0..wsize {
                            if s.done() || k >= HARD_ACTION_CAP {
                                break;
                            }
                            if abort_after == Some(k) && s.apply(Act::Abort) {
                                k += 1;
                                continue;
                            }
                            let opts = s.options();
                            if opts.is_empty() {
                                break;
                            }
                            let a = if k >= max_actions {
                                opts[0]
                            } else {
                                choose_styled(t, s.wants_poll(), s.pending(), &opts, style)
                            };
                            s.apply(a);
                            k += 1;
                        }
                        s.set_deferred(false);
                    });
                    s.note_yield();
                    s.observe();
                }
            }
        }
        Schedule::Replay(acts) => {
            replay_acts(s, acts, coop, false);
            finish_default(s, coop);
        }
        Schedule::Strict(acts) => {
            strict_ok = replay_acts(s, acts, coop, true);
        }
    }
    strict_ok
}

/// Apply a recorded action list (windows delimited by `Act::Yield` when `coop`).
fn replay_acts(s: &mut dyn Stepper, acts: &[Act], coop: bool, strict: bool) -> bool {
    if !coop {
        for a in acts {
            if matches!(a, Act::Yield | Act::Burn(_)) {
                continue;
            }
            if matches!(a, Act::External(_)) && !s.has_externals() {
                // events outside this run (left-overs of earlier runs), absent here
                continue;
            }
            if s.done() {
                return !strict;
            }
            if !s.apply(*a) && strict {
                return false;
            }
        }
        return true;
    }
    let mut ok = true;
    for window in acts.split(|a| *a == Act::Yield) {
        if s.done() {
            if !window.is_empty() && strict {
                ok = false;
            }
            break;
        }
        let burn = match window.first() {
            Some(Act::Burn(b)) => *b,
            _ => 0,
        };
        if burn > 0 {
            s.note_burn(burn);
        }
        let window: &[Act] = if burn > 0 { &window[1..] } else { window };
        in_task_poll_burn(burn, || {
            s.set_deferred(true);
            for a in window {
                if matches!(a, Act::External(_)) && !s.has_externals() {
                    continue;
                }
                if s.done() || !s.apply(*a) {
                    if strict {
                        ok = false;
                    }
                    if s.done() {
                        break;
                    }
                }
            }
            s.set_deferred(false);
        });
        s.note_yield();
        s.observe();
        if strict && !ok {
            break;
        }
    }
    ok
}

/// Default policy: poll when woken, otherwise complete the lowest candidate.
pub fn finish_default(s: &mut dyn Stepper, coop: bool) {
    let mut k = 0usize;
    while !s.done() && !s.stuck() && k < HARD_ACTION_CAP {
        let opts = s.options();
        if opts.is_empty() {
            break;
        }
        if coop {
            in_task_poll(|| {
                s.set_deferred(true);
                s.apply(opts[0]);
                s.set_deferred(false);
            });
            s.note_yield();
            s.observe();
        } else {
            s.apply(opts[0]);
        }
        k += 1;
    }
}

fn final_ret(s: &dyn Stepper) -> Ret {
    match s.ret() {
        Some(r) if s.done() => r.clone(),
        Some(Ret::Panic(m)) => Ret::Panic(m.clone()),
        _ => {
            if s.stuck() {
                Ret::Deadlock
            } else {
                Ret::Livelock
            }
        }
    }
}

pub fn run_single(spec: &GraphSpec, cfg: &RunCfg, schedule: Schedule) -> SingleResult {
    let mut g = build_graph(spec);
    let facts = GraphFacts::new(spec, &g);
    if cfg.on_clone {
        // a copy of the built graph: made by `clone()`, or (every other spec, by its
        // number of edge calls) by `clone_from` onto another, smaller graph value
        let c = if spec.edges.len() % 2 == 0 {
            g.clone()
        } else {
            let mut other = crate::model::small_other_graph();
            other.clone_from(&g);
            other
        };
        drop(g);
        g = c;
    }
    run_on(&mut g, facts, cfg, schedule)
}

/// Run on an existing graph value (used by histories).
pub fn run_on(
    g: &mut fn_graph::FnGraph<crate::model::TestFn>,
    facts: GraphFacts,
    cfg: &RunCfg,
    schedule: Schedule,
) -> SingleResult {
    run_on_ref(GRef::Mut(g), facts, cfg, schedule, &mut Vec::new())
}

/// Like `run_on`; `externals` (left-overs of earlier runs) may be dropped during
/// the run, the ones not dropped are handed back.  A shared reference only
/// serves the non-`mut` APIs.
pub fn run_on_ref(
    g: GRef,
    facts: GraphFacts,
    cfg: &RunCfg,
    schedule: Schedule,
    externals: &mut Vec<crate::explore::External>,
) -> SingleResult {
    let (trace, acts, ret, engine, polls, strict_ok) = if cfg.api.shape.is_stream() {
        let gs: &fn_graph::FnGraph<crate::model::TestFn> = match g {
            GRef::Shared(g) => g,
            GRef::Mut(g) => &*g,
        };
        let mut c = Consumer::new(gs, cfg);
        c.set_externals(std::mem::take(externals));
        let ok = drive(&mut c, schedule, cfg.coop);
        *externals = c.take_externals();
        (
            c.trace(),
            c.acts().to_vec(),
            final_ret(&c),
            c.engine_violations(),
            c.polls(),
            ok,
        )
    } else {
        let mut r = Runner::new(g, cfg);
        r.set_externals(std::mem::take(externals));
        let ok = drive(&mut r, schedule, cfg.coop);
        *externals = r.take_externals();
        (
            r.trace(),
            r.acts().to_vec(),
            final_ret(&r),
            r.engine_violations(),
            r.polls(),
            ok,
        )
    };
    let (violations, stats) = check_run(&facts, cfg, &trace, &acts, &ret, &engine);
    SingleResult {
        trace,
        acts,
        ret,
        violations,
        stats,
        facts,
        polls,
        strict_ok,
    }
}
