//! Controlled executor (for the fold / for_each style calls) and controlled
//! consumer (for the streams).  Both are step-able state machines driven by
//! explicit actions, single-threaded and deterministic: every wake-up is
//! observed through our own waker, every user future is a gate that completes
//! only when the explorer releases it.

use std::cell::RefCell;
use std::collections::BTreeSet;
use std::future::Future;
use std::ops::ControlFlow;
use std::panic::{catch_unwind, AssertUnwindSafe};
use std::pin::Pin;
use std::rc::Rc;
use std::sync::atomic::{AtomicUsize, Ordering};
use std::sync::Arc;
use std::task::{Context, Poll, Wake, Waker};

use fn_graph::{FnGraph, FnRef, StreamOpts, StreamOutcome, StreamOutcomeState};
use futures::{FutureExt, Stream, StreamExt};
use serde::{Deserialize, Serialize};

#[cfg(feature = "intr")]
use interruptible::{InterruptSignal, InterruptibilityState, PollOutcome};
#[cfg(feature = "intr")]
use tokio::sync::mpsc;

use crate::gen::{RunCfg, Shape, Strat};
use crate::model::TestFn;

pub use crate::violation::INTR;

pub struct CountWaker(pub AtomicUsize);
impl Wake for CountWaker {
    fn wake(self: Arc<Self>) {
        self.0.fetch_add(1, Ordering::SeqCst);
    }
    fn wake_by_ref(self: &Arc<Self>) {
        self.0.fetch_add(1, Ordering::SeqCst);
    }
}

/// Waker of the stream consumer: counts wake-ups like `CountWaker`, and can
/// perform one *in-poll drop* when it is cloned for the n-th time during a poll.
pub struct HookState {
    wakes: AtomicUsize,
    clones: AtomicUsize,
    armed_at: AtomicUsize,
    /// The `FnRef` to drop inside the poll (lifetime erased; it is always taken
    /// out again before the consumer, and thus the graph borrow, goes away).
    slot: std::sync::Mutex<Option<FnRef<'static, TestFn>>>,
    /// Something else to do at that moment (poll another run).
    nested: std::sync::Mutex<Option<Box<dyn FnOnce()>>>,
}

impl HookState {
    fn new() -> Arc<Self> {
        Arc::new(HookState {
            wakes: AtomicUsize::new(0),
            clones: AtomicUsize::new(0),
            armed_at: AtomicUsize::new(usize::MAX),
            slot: std::sync::Mutex::new(None),
            nested: std::sync::Mutex::new(None),
        })
    }
    fn waker(self: &Arc<Self>) -> Waker {
        use std::task::{RawWaker, RawWakerVTable};
        unsafe fn clone(p: *const ()) -> RawWaker {
            Arc::increment_strong_count(p as *const HookState);
            let st = &*(p as *const HookState);
            let c = st.clones.fetch_add(1, Ordering::SeqCst) + 1;
            if c == st.armed_at.load(Ordering::SeqCst) {
                let f = st.slot.lock().unwrap().take();
                // FnRef::drop notifies the stream: exactly what a drop on another
                // thread does while this poll is in progress
                drop(f);
                let h = st.nested.lock().unwrap().take();
                if let Some(h) = h {
                    h();
                }
            }
            RawWaker::new(p, &VTABLE)
        }
        unsafe fn wake(p: *const ()) {
            let a = Arc::from_raw(p as *const HookState);
            a.wakes.fetch_add(1, Ordering::SeqCst);
        }
        unsafe fn wake_by_ref(p: *const ()) {
            (*(p as *const HookState)).wakes.fetch_add(1, Ordering::SeqCst);
        }
        unsafe fn drop_w(p: *const ()) {
            drop(Arc::from_raw(p as *const HookState));
        }
        static VTABLE: RawWakerVTable = RawWakerVTable::new(clone, wake, wake_by_ref, drop_w);
        let p = Arc::into_raw(self.clone()) as *const ();
        // SAFETY: the vtable functions treat `p` as an `Arc<HookState>` whose
        // fields are all thread-safe.
        unsafe { Waker::from_raw(RawWaker::new(p, &VTABLE)) }
    }
}

#[derive(Clone, Copy, Debug, PartialEq, Eq, Hash, Serialize, Deserialize)]
pub enum Act {
    /// Poll the call future / `poll_next` the stream.
    Poll,
    /// Release the user future of function `id` / drop the held `FnRef` of `id`.
    Complete(usize),
    /// Send the interrupt signal.
    Interrupt,
    /// Drop the call future / the stream now (abnormal end).
    Abort,
    /// Only in `coop` runs: the polling task returns to the tokio scheduler (end
    /// of a task poll: deferred wake-ups are delivered, the budget is renewed).
    Yield,
    /// Only in `coop` runs, first action of a task poll: other work of the same
    /// task consumed this many units of tokio's cooperative budget (0..=127)
    /// before the graph run is polled, i.e. where in a task poll the budget runs
    /// out is a generated choice.
    Burn(usize),
    /// Streams only: `poll_next` during which the held `FnRef` of function `.0`
    /// is dropped at the moment the stream registers its waker for the `.1`-th
    /// time in that poll (tokio clones the waker when it registers it on a
    /// channel).  This is what a drop on another thread *during* the poll looks
    /// like, made deterministic.
    PollDropping(usize, usize),
    /// A poll during which, at the `.1`-th registration of the waker, *another*
    /// run on the same graph (run `.0` of a multi-run case) is polled once: what a
    /// poll of that run on another thread, overlapping this poll, looks like, made
    /// deterministic.  Without an installed hook (solo replay) it is a plain poll.
    PollNesting(usize, usize),
    /// An event that is not part of this run: the `.0`-th `FnRef` left over from
    /// an earlier, finished run on the same graph value is dropped now.
    External(usize),
}

/// Something left over from an earlier run on the same graph (a `FnRef` that is
/// still alive), dropped at a generated point of a later run.
pub type External = Box<dyn FnOnce()>;

#[derive(Clone, Debug, PartialEq, Eq, Hash, Serialize, Deserialize)]
pub enum Ev {
    /// Function handed to the caller (closure invoked / `FnRef` yielded).
    Start(usize),
    /// User future returned (`true` = with an error) / `FnRef` dropped.
    End(usize, bool),
    /// Interrupt signal sent.
    Interrupt,
    /// Observation point: the call / stream is pending and no wake-up of the
    /// polling task has been signalled since its last poll began.
    Quiet,
}

#[derive(Clone, Debug, PartialEq, Eq, Hash, Serialize, Deserialize)]
pub struct Outcome {
    pub state: String,
    pub processed: Vec<usize>,
    pub not_processed: Vec<usize>,
    /// Fold value (ids pushed by the fold closure), if the API has one.
    pub value: Option<Vec<usize>>,
}

impl Outcome {
    fn from<T>(o: StreamOutcome<T>, value: impl FnOnce(T) -> Option<Vec<usize>>) -> Outcome {
        let state = match o.state {
            StreamOutcomeState::NotStarted => "NotStarted",
            StreamOutcomeState::Interrupted => "Interrupted",
            StreamOutcomeState::Finished => "Finished",
        }
        .to_string();
        Outcome {
            state,
            processed: o.fn_ids_processed.iter().map(|i| i.index()).collect(),
            not_processed: o.fn_ids_not_processed.iter().map(|i| i.index()).collect(),
            value: value(o.value),
        }
    }
}

#[derive(Clone, Debug, PartialEq, Eq, Hash, Serialize, Deserialize)]
pub enum Ret {
    /// `StreamOutcome` / `Ok(StreamOutcome)`.
    Out(Outcome),
    /// `Err((StreamOutcome, errors))`.
    ErrOut(Outcome, Vec<usize>),
    /// `ControlFlow::Continue(StreamOutcome)`.
    Cont(Outcome),
    /// `ControlFlow::Break((StreamOutcome, errors))`.
    Brk(Outcome, Vec<usize>),
    /// `Err(e)` of `try_fold_async*`.
    FoldErr(usize),
    /// Stream returned `None`.
    StreamEnd,
    /// Pending, no wake-up signalled, nothing left that could signal one.
    Deadlock,
    /// Poll guard exceeded.
    Livelock,
    Panic(String),
    /// Dropped midway by the driver.
    Aborted,
}

impl Ret {
    pub fn label(&self) -> &'static str {
        match self {
            Ret::Out(_) => "Out",
            Ret::ErrOut(..) => "ErrOut",
            Ret::Cont(_) => "Cont",
            Ret::Brk(..) => "Brk",
            Ret::FoldErr(_) => "FoldErr",
            Ret::StreamEnd => "StreamEnd",
            Ret::Deadlock => "Deadlock",
            Ret::Livelock => "Livelock",
            Ret::Panic(_) => "Panic",
            Ret::Aborted => "Aborted",
        }
    }
    pub fn outcome(&self) -> Option<&Outcome> {
        match self {
            Ret::Out(o) | Ret::ErrOut(o, _) | Ret::Cont(o) | Ret::Brk(o, _) => Some(o),
            _ => None,
        }
    }
}

/// Violation detected by the engine itself while stepping (state predicates
/// that need the stream's poll results).
#[derive(Clone, Debug, PartialEq, Eq, Serialize, Deserialize)]
pub struct EngineViolation {
    pub prop: String,
    pub kind: String,
    pub msg: String,
}

#[derive(Default)]
pub struct Shared {
    pub trace: Vec<Ev>,
    released: Vec<bool>,
    wakers: Vec<Option<Waker>>,
    inflight: BTreeSet<usize>,
    failing: BTreeSet<usize>,
    yields: Vec<u8>,
}
type Sh = Rc<RefCell<Shared>>;

pub struct Gate {
    id: usize,
    sh: Sh,
    yields: u8,
}

impl Future for Gate {
    type Output = Result<(), usize>;
    fn poll(mut self: Pin<&mut Self>, cx: &mut Context<'_>) -> Poll<Self::Output> {
        let mut s = self.sh.borrow_mut();
        if s.released[self.id] {
            if self.yields > 0 {
                drop(s);
                self.yields -= 1;
                cx.waker().wake_by_ref();
                return Poll::Pending;
            }
            let fail = s.failing.contains(&self.id);
            s.inflight.remove(&self.id);
            s.trace.push(Ev::End(self.id, fail));
            Poll::Ready(if fail { Err(self.id) } else { Ok(()) })
        } else {
            s.wakers[self.id] = Some(cx.waker().clone());
            Poll::Pending
        }
    }
}

fn start(sh: &Sh, id: usize) -> Gate {
    let mut s = sh.borrow_mut();
    s.trace.push(Ev::Start(id));
    s.inflight.insert(id);
    let yields = s.yields.get(id).copied().unwrap_or(0);
    drop(s);
    Gate {
        id,
        sh: sh.clone(),
        yields,
    }
}

type FoldFut<'i, T> = futures::future::LocalBoxFuture<'i, T>;

fn fold_fn<'f>(
    s: Sh,
) -> impl for<'i> Fn(Vec<usize>, fn_graph::FnWrapper<'i, 'f, TestFn>) -> FoldFut<'i, Vec<usize>> {
    move |mut seed, f| {
        let id = f.id;
        let gt = start(&s, id);
        async move {
            let _ = gt.await;
            seed.push(id);
            seed
        }
        .boxed_local()
    }
}

fn fold_fn_mut<'f>(
    s: Sh,
) -> impl for<'i> Fn(Vec<usize>, fn_graph::FnWrapperMut<'i, 'f, TestFn>) -> FoldFut<'i, Vec<usize>>
{
    move |mut seed, f| {
        let id = f.id;
        let gt = start(&s, id);
        async move {
            let _ = gt.await;
            seed.push(id);
            seed
        }
        .boxed_local()
    }
}

fn try_fold_fn<'f>(
    s: Sh,
) -> impl for<'i> Fn(
    Vec<usize>,
    fn_graph::FnWrapper<'i, 'f, TestFn>,
) -> FoldFut<'i, Result<Vec<usize>, usize>> {
    move |mut seed, f| {
        let id = f.id;
        let gt = start(&s, id);
        async move {
            gt.await?;
            seed.push(id);
            Ok(seed)
        }
        .boxed_local()
    }
}

fn try_fold_fn_mut<'f>(
    s: Sh,
) -> impl for<'i> Fn(
    Vec<usize>,
    fn_graph::FnWrapperMut<'i, 'f, TestFn>,
) -> FoldFut<'i, Result<Vec<usize>, usize>> {
    move |mut seed, f| {
        let id = f.id;
        let gt = start(&s, id);
        async move {
            gt.await?;
            seed.push(id);
            Ok(seed)
        }
        .boxed_local()
    }
}

pub enum GRef<'g> {
    Shared(&'g FnGraph<TestFn>),
    Mut(&'g mut FnGraph<TestFn>),
}

/// Interrupt plumbing: exists in both builds so that the rest of the harness
/// is feature-independent.
pub struct Interrupter {
    #[cfg(feature = "intr")]
    tx: Option<mpsc::Sender<InterruptSignal>>,
    pub sent: bool,
    drop_after_send: bool,
    /// The signal was received by the state before the call began (`pre_interrupted`).
    pub pre: bool,
}

impl Interrupter {
    pub fn can_send(&self) -> bool {
        #[cfg(feature = "intr")]
        {
            let _ = self.drop_after_send;
            self.tx.is_some() && !self.sent
        }
        #[cfg(not(feature = "intr"))]
        {
            false
        }
    }
    /// Returns true if the signal was put into the channel.
    fn send(&mut self) -> bool {
        self.sent = true;
        #[cfg(feature = "intr")]
        {
            if let Some(tx) = &self.tx {
                let ok = tx.try_send(InterruptSignal).is_ok();
                if self.drop_after_send {
                    self.tx = None;
                }
                return ok;
            }
        }
        false
    }
}

/// Build `StreamOpts` (and the interrupter) for a configuration.
fn make_opts(cfg: &RunCfg) -> (StreamOpts<'static, 'static>, Interrupter) {
    let mut opts = StreamOpts::new();
    let apply_rev = |mut opts: StreamOpts<'static, 'static>| {
        if cfg.rev {
            for _ in 0..=cfg.rev_again {
                opts = opts.rev();
            }
        }
        opts
    };
    #[cfg(not(feature = "intr"))]
    {
        opts = apply_rev(opts);
    }
    #[cfg(feature = "intr")]
    {
        let (tx, state): (Option<mpsc::Sender<InterruptSignal>>, InterruptibilityState<'static, 'static>) = match cfg.strat {
            Strat::NonInterruptible => (None, InterruptibilityState::new_non_interruptible()),
            Strat::IgnoreInterruptions => {
                let (tx, rx) = mpsc::channel::<InterruptSignal>(4);
                (
                    Some(tx),
                    InterruptibilityState::new_ignore_interruptions(rx.into()),
                )
            }
            Strat::FinishCurrent => {
                let (tx, rx) = mpsc::channel::<InterruptSignal>(4);
                (Some(tx), InterruptibilityState::new_finish_current(rx.into()))
            }
            Strat::PollNextN(k) => {
                let (tx, rx) = mpsc::channel::<InterruptSignal>(4);
                (
                    Some(tx),
                    InterruptibilityState::new_poll_next_n(rx.into(), k),
                )
            }
        };
        let mut state = state;
        let mut intr = Interrupter { tx, sent: false, drop_after_send: cfg.drop_sender, pre: false };
        if cfg.pre_interrupted > 0 && intr.tx.is_some() {
            // what an earlier run sharing this state did: it received the signal
            // and polled items afterwards
            intr.send();
            for _ in 0..cfg.pre_interrupted {
                let _ = state.item_interrupt_poll(true);
            }
            intr.pre = true;
        }
        // the builder methods are independent setters: any call order means the same
        let order: [u8; 3] = match cfg.opts_order % 6 {
            0 => [0, 1, 2],
            1 => [0, 2, 1],
            2 => [1, 0, 2],
            3 => [1, 2, 0],
            4 => [2, 0, 1],
            _ => [2, 1, 0],
        };
        let mut state = Some(state);
        for step in order {
            opts = match step {
                0 => apply_rev(opts),
                1 => opts.interruptibility_state(state.take().expect("set once")),
                _ => opts.interrupted_next_item_include(cfg.include),
            };
        }
        (opts, intr)
    }
    #[cfg(not(feature = "intr"))]
    {
        assert!(
            cfg.strat == Strat::NonInterruptible,
            "interrupt strategies need the intr build"
        );
        (opts, Interrupter { sent: false, drop_after_send: cfg.drop_sender, pre: false })
    }
}

/// Common interface of the two engines.
pub trait Stepper {
    fn done(&self) -> bool;
    /// Pending, no wake outstanding, and no action left that could cause one.
    fn stuck(&self) -> bool;
    /// Should the polling task run (woken, or never polled / last poll ready)?
    fn wants_poll(&self) -> bool;
    /// Applicable actions, "simplest first" (Poll first iff `wants_poll`).
    fn options(&self) -> Vec<Act>;
    /// Returns false if the action was not applicable (nothing happened).
    fn apply(&mut self, a: Act) -> bool;
    fn acts(&self) -> &[Act];
    fn trace(&self) -> Vec<Ev>;
    fn ret(&self) -> Option<&Ret>;
    fn engine_violations(&self) -> Vec<EngineViolation>;
    /// Statistics for labels: polls performed.
    fn polls(&self) -> usize;
    /// While deferred, observations (`Quiet` markers, deadlock verdict, end-of-stream
    /// checks) are not made after each action but only when `observe` is called:
    /// inside a tokio task poll wake-ups caused by an exhausted budget are
    /// delivered when the task yields.
    fn set_deferred(&mut self, on: bool);
    fn observe(&mut self);
    /// Record the end of a task poll in the action list.
    fn note_yield(&mut self);
    /// Record a budget burn at the start of a task poll.
    fn note_burn(&mut self, units: usize);
    /// Did the last poll return Pending (call / stream not finished)?
    fn pending(&self) -> bool;
    /// Left-overs of earlier runs that may be dropped during this run.
    fn set_externals(&mut self, ext: Vec<External>);
    /// The left-overs not dropped so far.
    fn take_externals(&mut self) -> Vec<External>;
    fn has_externals(&self) -> bool;
    /// The call future / the stream still exists and has not finished.
    fn source_live(&self) -> bool;
    /// What `Act::PollNesting` runs inside the poll (None: nothing).
    fn set_nested_hook(&mut self, hook: Option<Box<dyn FnOnce()>>);
}

fn external_options(ext: &[Option<External>], v: &mut Vec<Act>) {
    for (i, e) in ext.iter().enumerate() {
        if e.is_some() {
            v.push(Act::External(i));
        }
    }
}

fn external_fire(ext: &mut [Option<External>], i: usize) -> Option<Result<(), String>> {
    let e = ext.get_mut(i)?.take()?;
    Some(catch_unwind(AssertUnwindSafe(e)).map_err(panic_msg))
}

thread_local! {
    static RT: tokio::runtime::Runtime = tokio::runtime::Builder::new_current_thread()
        .build()
        .expect("tokio current-thread runtime");
}

/// Run `f` inside one tokio task poll (fresh cooperative budget), then yield to
/// the scheduler once so that every wake-up deferred by tokio during `f` has been
/// delivered when this returns.
pub fn in_task_poll<R>(f: impl FnOnce() -> R) -> R {
    in_task_poll_burn(0, f)
}

/// Like `in_task_poll`, after consuming `burn` (< 128) budget units.
pub fn in_task_poll_burn<R>(burn: usize, f: impl FnOnce() -> R) -> R {
    RT.with(|rt| {
        rt.block_on(async move {
            for _ in 0..burn.min(127) {
                tokio::task::coop::consume_budget().await;
            }
            let r = f();
            tokio::task::yield_now().await;
            r
        })
    })
}

fn panic_msg(p: Box<dyn std::any::Any + Send>) -> String {
    p.downcast_ref::<&str>()
        .map(|s| s.to_string())
        .or(p.downcast_ref::<String>().cloned())
        .unwrap_or_else(|| "<non-string panic>".into())
}

// ---------------------------------------------------------------------------------------------
// Runner: fold / for_each style calls
// ---------------------------------------------------------------------------------------------

pub struct Runner<'g> {
    sh: Sh,
    fut: Option<Pin<Box<dyn Future<Output = Ret> + 'g>>>,
    cw: Arc<HookState>,
    nested_hook: Option<Box<dyn FnOnce()>>,
    intr: Interrupter,
    polled: bool,
    polls: usize,
    polls_since_external: usize,
    livelock_bound: usize,
    ret: Option<Ret>,
    acts: Vec<Act>,
    deferred: bool,
    externals: Vec<Option<External>>,
}

impl<'g> Runner<'g> {
    pub fn new(g: GRef<'g>, cfg: &RunCfg) -> Self {
        let n = match &g {
            GRef::Shared(g) => g.graph.node_count(),
            GRef::Mut(g) => g.graph.node_count(),
        };
        let e = match &g {
            GRef::Shared(g) => g.graph.edge_count(),
            GRef::Mut(g) => g.graph.edge_count(),
        };
        let sh: Sh = Rc::new(RefCell::new(Shared {
            released: (0..n).map(|i| cfg.instant.contains(&i)).collect(),
            wakers: vec![None; n],
            failing: cfg.failing.iter().copied().collect(),
            yields: cfg.yields.clone(),
            ..Default::default()
        }));
        let (opts, intr) = make_opts(cfg);
        if intr.pre {
            sh.borrow_mut().trace.push(Ev::Interrupt);
        }
        let limit = cfg.limit;
        let with = cfg.api.with;
        let s = sh.clone();
        let shape = cfg.api.shape;
        assert!(!shape.is_stream());
        let g = match g {
            GRef::Mut(g) if !shape.is_mut() => GRef::Shared(&*g),
            other => other,
        };
        let out = |o: StreamOutcome<()>| Outcome::from(o, |()| None);
        let outv = |o: StreamOutcome<Vec<usize>>| Outcome::from(o, Some);
        let fut: Pin<Box<dyn Future<Output = Ret> + 'g>> = match (shape, g) {
            (Shape::ForEach, GRef::Shared(g)) => Box::pin(async move {
                let f = |f: &TestFn| {
                    let gt = start(&s, f.id);
                    async move {
                        let _ = gt.await;
                    }
                };
                let o = if with {
                    g.for_each_concurrent_with(limit, opts, f).await
                } else {
                    g.for_each_concurrent(limit, f).await
                };
                Ret::Out(out(o))
            }),
            (Shape::ForEachMut, GRef::Mut(g)) => Box::pin(async move {
                let f = |f: &mut TestFn| {
                    let gt = start(&s, f.id);
                    async move {
                        let _ = gt.await;
                    }
                };
                let o = if with {
                    g.for_each_concurrent_mut_with(limit, opts, f).await
                } else {
                    g.for_each_concurrent_mut(limit, f).await
                };
                Ret::Out(out(o))
            }),
            (Shape::TryForEach, GRef::Shared(g)) => Box::pin(async move {
                let f = |f: &TestFn| start(&s, f.id);
                let r = if with {
                    g.try_for_each_concurrent_with(limit, opts, f).await
                } else {
                    g.try_for_each_concurrent(limit, f).await
                };
                match r {
                    Ok(o) => Ret::Out(out(o)),
                    Err((o, e)) => Ret::ErrOut(out(o), e),
                }
            }),
            (Shape::TryForEachMut, GRef::Mut(g)) => Box::pin(async move {
                let f = |f: &mut TestFn| start(&s, f.id);
                let r = if with {
                    g.try_for_each_concurrent_mut_with(limit, opts, f).await
                } else {
                    g.try_for_each_concurrent_mut(limit, f).await
                };
                match r {
                    Ok(o) => Ret::Out(out(o)),
                    Err((o, e)) => Ret::ErrOut(out(o), e),
                }
            }),
            (Shape::TryControl, GRef::Shared(g)) => Box::pin(async move {
                let f = |f: &TestFn| {
                    let gt = start(&s, f.id);
                    async move {
                        match gt.await {
                            Ok(()) => ControlFlow::Continue(()),
                            Err(e) => ControlFlow::Break(e),
                        }
                    }
                };
                let r = if with {
                    g.try_for_each_concurrent_control_with(limit, opts, f).await
                } else {
                    g.try_for_each_concurrent_control(limit, f).await
                };
                match r {
                    ControlFlow::Continue(o) => Ret::Cont(out(o)),
                    ControlFlow::Break((o, e)) => Ret::Brk(out(o), e),
                }
            }),
            (Shape::TryControlMut, GRef::Mut(g)) => Box::pin(async move {
                let f = |f: &mut TestFn| {
                    let gt = start(&s, f.id);
                    async move {
                        match gt.await {
                            Ok(()) => ControlFlow::Continue(()),
                            Err(e) => ControlFlow::Break(e),
                        }
                    }
                };
                let r = if with {
                    g.try_for_each_concurrent_control_mut_with(limit, opts, f)
                        .await
                } else {
                    g.try_for_each_concurrent_control_mut(limit, f).await
                };
                match r {
                    ControlFlow::Continue(o) => Ret::Cont(out(o)),
                    ControlFlow::Break((o, e)) => Ret::Brk(out(o), e),
                }
            }),
            (Shape::Fold, GRef::Shared(g)) => Box::pin(async move {
                let f = fold_fn(s);
                let o = if with {
                    g.fold_async_with(Vec::new(), opts, f).await
                } else {
                    g.fold_async(Vec::new(), f).await
                };
                Ret::Out(outv(o))
            }),
            (Shape::FoldMut, GRef::Mut(g)) => Box::pin(async move {
                let f = fold_fn_mut(s);
                let o = if with {
                    g.fold_async_mut_with(Vec::new(), opts, f).await
                } else {
                    g.fold_async_mut(Vec::new(), f).await
                };
                Ret::Out(outv(o))
            }),
            (Shape::TryFold, GRef::Shared(g)) => Box::pin(async move {
                let f = try_fold_fn(s);
                let r = if with {
                    g.try_fold_async_with(Vec::new(), opts, f).await
                } else {
                    g.try_fold_async(Vec::new(), f).await
                };
                match r {
                    Ok(o) => Ret::Out(outv(o)),
                    Err(e) => Ret::FoldErr(e),
                }
            }),
            (Shape::TryFoldMut, GRef::Mut(g)) => Box::pin(async move {
                let f = try_fold_fn_mut(s);
                let r = if with {
                    g.try_fold_async_mut_with(Vec::new(), opts, f).await
                } else {
                    g.try_fold_async_mut(Vec::new(), f).await
                };
                match r {
                    Ok(o) => Ret::Out(outv(o)),
                    Err(e) => Ret::FoldErr(e),
                }
            }),
            (shape, _) => panic!("{shape:?} needs a mutable graph reference"),
        };
        Runner {
            sh,
            fut: Some(fut),
            cw: HookState::new(),
            nested_hook: None,
            intr,
            polled: false,
            polls: 0,
            polls_since_external: 0,
            livelock_bound: 100 * (n + e) + 10_000,
            ret: None,
            acts: Vec::new(),
            deferred: false,
            externals: Vec::new(),
        }
    }

    fn woken(&self) -> bool {
        self.cw.wakes.load(Ordering::SeqCst) > 0
    }

    /// In flight and not yet released.
    fn cands(&self) -> Vec<usize> {
        let s = self.sh.borrow();
        s.inflight
            .iter()
            .copied()
            .filter(|i| !s.released[*i])
            .collect()
    }

    pub fn in_flight(&self) -> usize {
        self.sh.borrow().inflight.len()
    }

    fn note_quiet(&mut self) {
        if self.deferred {
            return;
        }
        if self.ret.is_none() && self.polled && self.fut.is_some() && !self.woken() {
            self.sh.borrow_mut().trace.push(Ev::Quiet);
            if self.cands().is_empty() {
                // pending, no wake-up signalled, nothing left that could signal one
                std::mem::forget(self.fut.take());
                self.ret = Some(Ret::Deadlock);
            }
        }
    }
}

impl Stepper for Runner<'_> {
    fn done(&self) -> bool {
        self.ret.is_some()
    }
    fn stuck(&self) -> bool {
        !self.done() && self.polled && !self.woken() && self.cands().is_empty()
    }
    fn wants_poll(&self) -> bool {
        !self.polled || self.woken()
    }
    fn options(&self) -> Vec<Act> {
        if self.done() {
            return vec![];
        }
        let mut v = Vec::new();
        let wp = self.wants_poll();
        if wp {
            v.push(Act::Poll);
        }
        for c in self.cands() {
            v.push(Act::Complete(c));
        }
        if self.intr.can_send() {
            v.push(Act::Interrupt);
        }
        external_options(&self.externals, &mut v);
        if !wp {
            v.push(Act::Poll);
        }
        v
    }
    fn apply(&mut self, a: Act) -> bool {
        if self.done() {
            return false;
        }
        match a {
            Act::Poll | Act::PollNesting(..) => {
                self.acts.push(a);
                // a fresh waker for every poll: only a wake-up of the waker given
                // to the *latest* poll counts (the Future contract), so a stale
                // registration is seen as a lost wake-up
                self.cw = HookState::new();
                if let Act::PollNesting(_, nth) = a {
                    if let Some(h) = self.nested_hook.take() {
                        *self.cw.nested.lock().unwrap() = Some(h);
                        self.cw.armed_at.store(nth.max(1), Ordering::SeqCst);
                    }
                }
                let waker = self.cw.waker();
                let mut cx = Context::from_waker(&waker);
                self.polled = true;
                self.polls += 1;
                self.polls_since_external += 1;
                let fut = self.fut.as_mut().unwrap();
                let polled = catch_unwind(AssertUnwindSafe(|| fut.as_mut().poll(&mut cx)));
                self.cw.armed_at.store(usize::MAX, Ordering::SeqCst);
                drop(self.cw.nested.lock().unwrap().take());
                match polled {
                    Err(p) => {
                        // Dropping a future that panicked mid-poll may panic again.
                        std::mem::forget(self.fut.take());
                        self.ret = Some(Ret::Panic(panic_msg(p)));
                    }
                    Ok(Poll::Ready(r)) => {
                        let fut = self.fut.take();
                        if let Err(p) = catch_unwind(AssertUnwindSafe(move || drop(fut))) {
                            self.ret = Some(Ret::Panic(format!("on drop: {}", panic_msg(p))));
                        } else {
                            self.ret = Some(r);
                        }
                    }
                    Ok(Poll::Pending) => {
                        if self.polls_since_external > self.livelock_bound {
                            std::mem::forget(self.fut.take());
                            self.ret = Some(Ret::Livelock);
                        } else {
                            self.note_quiet();
                        }
                    }
                }
                true
            }
            Act::Complete(c) => {
                if !self.cands().contains(&c) {
                    return false;
                }
                self.acts.push(a);
                self.polls_since_external = 0;
                let w = {
                    let mut s = self.sh.borrow_mut();
                    s.released[c] = true;
                    s.wakers[c].take()
                };
                match w {
                    Some(w) => w.wake(),
                    // never polled yet: it is ready on its first poll, which the
                    // library performs when it next runs.
                    None => {
                        self.cw.wakes.fetch_add(1, Ordering::SeqCst);
                    }
                }
                self.note_quiet();
                true
            }
            Act::Interrupt => {
                if !self.intr.can_send() {
                    return false;
                }
                self.acts.push(a);
                self.polls_since_external = 0;
                if self.intr.send() {
                    self.sh.borrow_mut().trace.push(Ev::Interrupt);
                }
                self.note_quiet();
                true
            }
            Act::Abort => {
                self.acts.push(a);
                let fut = self.fut.take();
                if let Err(p) = catch_unwind(AssertUnwindSafe(move || drop(fut))) {
                    self.ret = Some(Ret::Panic(format!("on abort: {}", panic_msg(p))));
                } else {
                    self.ret = Some(Ret::Aborted);
                }
                true
            }
            Act::External(i) => match external_fire(&mut self.externals, i) {
                None => false,
                Some(r) => {
                    self.acts.push(a);
                    match r {
                        // no observation point: the event is not part of this run
                        Ok(()) => {}
                        Err(m) => {
                            std::mem::forget(self.fut.take());
                            self.ret = Some(Ret::Panic(format!("on drop of an earlier run's FnRef: {m}")));
                        }
                    }
                    true
                }
            },
            Act::Yield | Act::Burn(_) | Act::PollDropping(..) => false,
        }
    }
    fn set_externals(&mut self, ext: Vec<External>) {
        self.externals = ext.into_iter().map(Some).collect();
    }
    fn take_externals(&mut self) -> Vec<External> {
        self.externals.drain(..).flatten().collect()
    }
    fn has_externals(&self) -> bool {
        self.externals.iter().any(|e| e.is_some())
    }
    fn source_live(&self) -> bool {
        self.ret.is_none()
    }
    fn set_nested_hook(&mut self, hook: Option<Box<dyn FnOnce()>>) {
        self.nested_hook = hook;
    }
    fn set_deferred(&mut self, on: bool) {
        self.deferred = on;
    }
    fn observe(&mut self) {
        self.note_quiet();
    }
    fn note_yield(&mut self) {
        self.acts.push(Act::Yield);
    }
    fn note_burn(&mut self, units: usize) {
        self.acts.push(Act::Burn(units));
    }
    fn pending(&self) -> bool {
        self.polled && self.ret.is_none()
    }
    fn acts(&self) -> &[Act] {
        &self.acts
    }
    fn trace(&self) -> Vec<Ev> {
        self.sh.borrow().trace.clone()
    }
    fn ret(&self) -> Option<&Ret> {
        self.ret.as_ref()
    }
    fn engine_violations(&self) -> Vec<EngineViolation> {
        Vec::new()
    }
    fn polls(&self) -> usize {
        self.polls
    }
}

// ---------------------------------------------------------------------------------------------
// Consumer: stream / stream_with / stream_interruptible / stream_with_interruptible
// ---------------------------------------------------------------------------------------------

pub enum Item<'g> {
    No(FnRef<'g, TestFn>),
    /// `PollOutcome::Interrupted(item)`.
    Intr(Option<FnRef<'g, TestFn>>),
}

pub struct Consumer<'g> {
    stream: Option<Pin<Box<dyn Stream<Item = Item<'g>> + 'g>>>,
    n: usize,
    hook: Arc<HookState>,
    intr: Interrupter,
    effective: bool,
    held: Vec<FnRef<'g, TestFn>>,
    yielded: Vec<usize>,
    trace: Vec<Ev>,
    last_pending: bool,
    polled: bool,
    saw_intr_item: bool,
    signal_sent: bool,
    /// The stream returned `None` (it may be kept alive until the end).
    ended: bool,
    polls: usize,
    ret: Option<Ret>,
    acts: Vec<Act>,
    viol: Vec<EngineViolation>,
    deferred: bool,
    externals: Vec<Option<External>>,
    nested_hook: Option<Box<dyn FnOnce()>>,
    unwind: Vec<usize>,
}

/// Payload of the consumer's own, contained panics.
struct ContainedPanic;

impl<'g> Consumer<'g> {
    pub fn new(g: &'g FnGraph<TestFn>, cfg: &RunCfg) -> Self {
        let n = g.graph.node_count();
        let (opts, intr) = make_opts(cfg);
        let pre = intr.pre;
        // creating the stream runs library code (channel set-up, preload): a panic
        // there is a verdict, not a harness failure
        let created = catch_unwind(AssertUnwindSafe(|| -> Pin<Box<dyn Stream<Item = Item<'g>> + 'g>> {
            match (cfg.api.shape, cfg.api.with) {
                (Shape::Stream, false) => Box::pin(g.stream().map(Item::No)),
                (Shape::Stream, true) => Box::pin(g.stream_with(opts).map(Item::No)),
                #[cfg(feature = "intr")]
                (Shape::StreamIntr, false) => Box::pin(g.stream_interruptible().map(|po| match po {
                    PollOutcome::NoInterrupt(f) => Item::No(f),
                    PollOutcome::Interrupted(f) => Item::Intr(f),
                })),
                #[cfg(feature = "intr")]
                (Shape::StreamIntr, true) => {
                    Box::pin(g.stream_with_interruptible(opts).map(|po| match po {
                        PollOutcome::NoInterrupt(f) => Item::No(f),
                        PollOutcome::Interrupted(f) => Item::Intr(f),
                    }))
                }
                (s, _) => panic!("{s:?} is not a stream shape in this build"),
            }
        }));
        let (stream, ret) = match created {
            Ok(s) => (Some(s), None),
            Err(p) => (None, Some(Ret::Panic(format!("creating the stream: {}", panic_msg(p))))),
        };
        Consumer {
            stream,
            n,
            hook: HookState::new(),
            intr,
            effective: cfg.strat.effective() && cfg.api.shape == Shape::StreamIntr,
            held: Vec::new(),
            yielded: Vec::new(),
            trace: if pre { vec![Ev::Interrupt] } else { Vec::new() },
            last_pending: false,
            polled: false,
            saw_intr_item: false,
            signal_sent: pre,
            ended: false,
            polls: 0,
            ret,
            acts: Vec::new(),
            viol: Vec::new(),
            deferred: false,
            externals: Vec::new(),
            nested_hook: None,
            unwind: cfg.unwind.clone(),
        }
    }

    /// The `FnRef`s still held, handed to the caller (a later run on the same
    /// graph drops them at generated points).
    pub fn take_held(&mut self) -> Vec<FnRef<'g, TestFn>> {
        std::mem::take(&mut self.held)
    }

    pub fn is_stream_live(&self) -> bool {
        self.stream_live()
    }

    /// The stream value itself (ended or not), if the consumer still has it: a
    /// caller may keep a finished stream around and drop it much later.
    pub fn take_stream(&mut self) -> Option<Pin<Box<dyn Stream<Item = Item<'g>> + 'g>>> {
        self.stream.take()
    }

    fn woken(&self) -> bool {
        self.hook.wakes.load(Ordering::SeqCst) > 0
    }

    fn stream_live(&self) -> bool {
        self.stream.is_some() && !self.ended
    }

    fn note_quiet(&mut self) {
        if self.deferred {
            return;
        }
        if self.stream_live() && self.last_pending && !self.woken() {
            // A Pending without any wake-up signalled: the end-of-stream clauses are
            // judged here (inside a tokio task an exhausted budget may legitimately
            // answer Pending *with* a wake-up where None is due).
            if self.yielded.len() == self.n && !self.saw_intr_item {
                let msg = format!(
                    "all {} functions were yielded but poll_next returned Pending instead of None",
                    self.n
                );
                if !self.viol.iter().any(|v| v.kind == "pending-after-all-yielded") {
                    self.violation("C05", "pending-after-all-yielded", msg);
                }
            }
            if self.saw_intr_item && !self.viol.iter().any(|v| v.kind == "pending-after-interrupted-item") {
                self.violation(
                    "C08",
                    "pending-after-interrupted-item",
                    "poll after the Interrupted item returned Pending instead of None".into(),
                );
            }
            self.trace.push(Ev::Quiet);
        }
    }

    fn violation(&mut self, prop: &str, kind: &str, msg: String) {
        self.viol.push(EngineViolation {
            prop: prop.into(),
            kind: kind.into(),
            msg,
        });
    }

    /// One `poll_next`; with `in_poll_drop = Some((index in held, n))` the FnRef is
    /// dropped at the n-th registration of the waker inside that poll.
    fn do_poll(&mut self, in_poll_drop: Option<(usize, usize)>, nesting: Option<usize>) {
            // a fresh waker for every poll (see Runner): wake-ups of wakers handed
            // to earlier polls do not count
            self.hook = HookState::new();
            let waker = self.hook.waker();
            let mut cx = Context::from_waker(&waker);
            let mut dropping: Option<usize> = None;
            if let Some(nth) = nesting {
                if let Some(h) = self.nested_hook.take() {
                    *self.hook.nested.lock().unwrap() = Some(h);
                    self.hook.armed_at.store(nth.max(1), Ordering::SeqCst);
                }
            }
            if let Some((ix, nth)) = in_poll_drop {
                let f = self.held.remove(ix);
                dropping = Some(f.id);
                // SAFETY: lifetime erased for storage only; taken out again below or
                // dropped by the hook during this very poll.
                let f: FnRef<'static, TestFn> = unsafe { std::mem::transmute(f) };
                *self.hook.slot.lock().unwrap() = Some(f);
                self.hook.armed_at.store(nth, Ordering::SeqCst);
            }
            self.polled = true;
            self.polls += 1;
            let s = self.stream.as_mut().unwrap();
            let r = catch_unwind(AssertUnwindSafe(|| s.as_mut().poll_next(&mut cx)));
            self.hook.armed_at.store(usize::MAX, Ordering::SeqCst);
            drop(self.hook.nested.lock().unwrap().take());
            if let Some(id) = dropping {
                let back = self.hook.slot.lock().unwrap().take();
                match back {
                    // the waker was not registered that often: nothing was dropped
                    Some(f) => {
                        let f: FnRef<'g, TestFn> = unsafe { std::mem::transmute(f) };
                        self.held.insert(0, f);
                    }
                    // dropped inside the poll, i.e. before whatever the poll returned
                    None => self.trace.push(Ev::End(id, false)),
                }
            }
            match r {
                Err(p) => {
                    std::mem::forget(self.stream.take());
                    let held = std::mem::take(&mut self.held);
                    std::mem::forget(held);
                    self.ret = Some(Ret::Panic(panic_msg(p)));
                }
                Ok(Poll::Pending) => {
                    self.last_pending = true;
                    self.note_quiet();
                }
                Ok(Poll::Ready(None)) => {
                    self.last_pending = false;
                    if self.yielded.len() != self.n && !self.interrupted_effectively() {
                        let msg = format!(
                            "stream ended after yielding {:?} of {} functions",
                            self.yielded, self.n
                        );
                        self.violation("C05", "ended-early", msg);
                    }
                    if self.interrupted_effectively()
                        && self.yielded.len() != self.n
                        && !self.saw_intr_item
                    {
                        self.violation(
                            "C08",
                            "ended-without-interrupted-item",
                            "interrupted stream ended early without an Interrupted item".into(),
                        );
                    }
                    self.ended = true;
                    self.ret = Some(Ret::StreamEnd);
                    // Either drop the finished stream right away (before the
                    // remaining FnRefs) or keep it until the very end; a
                    // deterministic function of the action list.
                    if self.acts.len() % 2 == 0 {
                        let s = self.stream.take();
                        if let Err(p) = catch_unwind(AssertUnwindSafe(move || drop(s))) {
                            self.ret =
                                Some(Ret::Panic(format!("on stream drop: {}", panic_msg(p))));
                        }
                    }
                }
                Ok(Poll::Ready(Some(item))) => {
                    self.last_pending = false;
                    if self.saw_intr_item {
                        self.violation(
                            "C08",
                            "item-after-interrupted-item",
                            "stream yielded an item after the Interrupted item".into(),
                        );
                    }
                    let f = match item {
                        Item::No(f) => Some(f),
                        Item::Intr(f) => {
                            self.saw_intr_item = true;
                            f
                        }
                    };
                    if let Some(f) = f {
                        let id = f.id;
                        self.trace.push(Ev::Start(id));
                        self.yielded.push(id);
                        self.held.push(f);
                    }
                }
            }
    }

    fn interrupted_effectively(&self) -> bool {
        self.effective && self.signal_sent
    }
}

impl Stepper for Consumer<'_> {
    /// Done = stream gone (ended or dropped) and nothing held.
    fn done(&self) -> bool {
        matches!(self.ret, Some(Ret::Panic(_))) || (!self.stream_live() && self.held.is_empty())
    }
    fn stuck(&self) -> bool {
        self.stream_live() && self.last_pending && !self.woken() && self.held.is_empty()
    }
    fn wants_poll(&self) -> bool {
        self.stream_live() && (!self.last_pending || self.woken())
    }
    fn options(&self) -> Vec<Act> {
        if self.done() {
            return vec![];
        }
        let mut v = Vec::new();
        let wp = self.wants_poll();
        if wp {
            v.push(Act::Poll);
        }
        for f in &self.held {
            v.push(Act::Complete(f.id));
        }
        if self.stream_live() && self.intr.can_send() {
            v.push(Act::Interrupt);
        }
        if self.stream_live() {
            for f in self.held.iter().take(2) {
                v.push(Act::PollDropping(f.id, 1));
                v.push(Act::PollDropping(f.id, 2));
            }
        }
        external_options(&self.externals, &mut v);
        if !wp && self.stream_live() {
            v.push(Act::Poll);
        }
        v
    }
    fn apply(&mut self, a: Act) -> bool {
        match a {
            Act::Poll => {
                if !self.stream_live() {
                    return false;
                }
                self.acts.push(a);
                self.do_poll(None, None);
                true
            }
            Act::PollNesting(_, nth) => {
                if !self.stream_live() {
                    return false;
                }
                self.acts.push(a);
                self.do_poll(None, Some(nth));
                true
            }
            Act::PollDropping(id, nth) => {
                if !self.stream_live() || nth == 0 {
                    return false;
                }
                let Some(ix) = self.held.iter().position(|f| f.id == id) else {
                    return false;
                };
                self.acts.push(a);
                self.do_poll(Some((ix, nth)), None);
                true
            }
            Act::Complete(id) => {
                let Some(ix) = self.held.iter().position(|f| f.id == id) else {
                    return false;
                };
                self.acts.push(a);
                let f = self.held.remove(ix);
                let by_unwinding = self.unwind.contains(&id);
                let dropped = catch_unwind(AssertUnwindSafe(move || {
                    if by_unwinding {
                        // the FnRef is a local of a frame that panics: dropped by the
                        // unwinding; the panic is contained right here
                        let r = catch_unwind(AssertUnwindSafe(move || {
                            let _f = f;
                            std::panic::panic_any(ContainedPanic);
                        }));
                        match r {
                            Err(p) if p.is::<ContainedPanic>() => {}
                            Err(p) => std::panic::resume_unwind(p),
                            Ok(()) => {}
                        }
                    } else {
                        drop(f)
                    }
                }));
                match dropped {
                    Err(p) => {
                        std::mem::forget(self.stream.take());
                        std::mem::forget(std::mem::take(&mut self.held));
                        self.ret = Some(Ret::Panic(format!("on FnRef drop: {}", panic_msg(p))));
                    }
                    Ok(()) => {
                        self.trace.push(Ev::End(id, false));
                        self.note_quiet();
                    }
                }
                true
            }
            Act::Interrupt => {
                if !(self.stream_live() && self.intr.can_send()) {
                    return false;
                }
                self.acts.push(a);
                if self.intr.send() {
                    self.signal_sent = true;
                    self.trace.push(Ev::Interrupt);
                }
                self.note_quiet();
                true
            }
            Act::Abort => {
                if !self.stream_live() {
                    return false;
                }
                self.acts.push(a);
                let s = self.stream.take();
                if let Err(p) = catch_unwind(AssertUnwindSafe(move || drop(s))) {
                    std::mem::forget(std::mem::take(&mut self.held));
                    self.ret = Some(Ret::Panic(format!("on stream drop: {}", panic_msg(p))));
                } else {
                    self.ret = Some(Ret::Aborted);
                }
                true
            }
            Act::External(i) => match external_fire(&mut self.externals, i) {
                None => false,
                Some(r) => {
                    self.acts.push(a);
                    match r {
                        Ok(()) => {}
                        Err(m) => {
                            std::mem::forget(self.stream.take());
                            std::mem::forget(std::mem::take(&mut self.held));
                            self.ret = Some(Ret::Panic(format!("on drop of an earlier run's FnRef: {m}")));
                        }
                    }
                    true
                }
            },
            Act::Yield | Act::Burn(_) => false,
        }
    }
    fn set_externals(&mut self, ext: Vec<External>) {
        self.externals = ext.into_iter().map(Some).collect();
    }
    fn take_externals(&mut self) -> Vec<External> {
        self.externals.drain(..).flatten().collect()
    }
    fn has_externals(&self) -> bool {
        self.externals.iter().any(|e| e.is_some())
    }
    fn set_deferred(&mut self, on: bool) {
        self.deferred = on;
    }
    fn observe(&mut self) {
        self.note_quiet();
    }
    fn note_yield(&mut self) {
        self.acts.push(Act::Yield);
    }
    fn note_burn(&mut self, units: usize) {
        self.acts.push(Act::Burn(units));
    }
    fn pending(&self) -> bool {
        self.stream_live() && self.last_pending
    }
    fn source_live(&self) -> bool {
        self.stream_live()
    }
    fn set_nested_hook(&mut self, hook: Option<Box<dyn FnOnce()>>) {
        self.nested_hook = hook;
    }
    fn acts(&self) -> &[Act] {
        &self.acts
    }
    fn trace(&self) -> Vec<Ev> {
        self.trace.clone()
    }
    fn ret(&self) -> Option<&Ret> {
        self.ret.as_ref()
    }
    fn engine_violations(&self) -> Vec<EngineViolation> {
        self.viol.clone()
    }
    fn polls(&self) -> usize {
        self.polls
    }
}

impl Drop for Consumer<'_> {
    fn drop(&mut self) {
        let parked = self.hook.slot.lock().unwrap().take();
        let _ = catch_unwind(AssertUnwindSafe(move || drop(parked)));
        // never let a panic in the code under test escape from a destructor
        let s = self.stream.take();
        let h = std::mem::take(&mut self.held);
        let _ = catch_unwind(AssertUnwindSafe(move || {
            drop(h);
            drop(s);
        }));
    }
}

impl Drop for Runner<'_> {
    fn drop(&mut self) {
        let f = self.fut.take();
        let _ = catch_unwind(AssertUnwindSafe(move || drop(f)));
    }
}
