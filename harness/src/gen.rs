//! Decoders from choice tapes to graph specs and run configurations.

use serde::{Deserialize, Serialize};

use crate::model::{GraphSpec, Kind, TestFn, N_TYPES};
use crate::tape::Tape;

#[derive(Clone, Copy, Debug, PartialEq, Eq, Hash, Serialize, Deserialize, PartialOrd, Ord)]
pub enum Shape {
    ForEach,
    ForEachMut,
    TryForEach,
    TryForEachMut,
    TryControl,
    TryControlMut,
    Fold,
    FoldMut,
    TryFold,
    TryFoldMut,
    Stream,
    StreamIntr,
}

pub const CALL_SHAPES: [Shape; 10] = [
    Shape::ForEach,
    Shape::ForEachMut,
    Shape::TryForEach,
    Shape::TryForEachMut,
    Shape::TryControl,
    Shape::TryControlMut,
    Shape::Fold,
    Shape::FoldMut,
    Shape::TryFold,
    Shape::TryFoldMut,
];

impl Shape {
    pub fn is_stream(self) -> bool {
        matches!(self, Shape::Stream | Shape::StreamIntr)
    }
    pub fn is_fold(self) -> bool {
        matches!(
            self,
            Shape::Fold | Shape::FoldMut | Shape::TryFold | Shape::TryFoldMut
        )
    }
    pub fn is_try(self) -> bool {
        matches!(
            self,
            Shape::TryForEach
                | Shape::TryForEachMut
                | Shape::TryControl
                | Shape::TryControlMut
                | Shape::TryFold
                | Shape::TryFoldMut
        )
    }
    pub fn is_control(self) -> bool {
        matches!(self, Shape::TryControl | Shape::TryControlMut)
    }
    pub fn is_mut(self) -> bool {
        matches!(
            self,
            Shape::ForEachMut
                | Shape::TryForEachMut
                | Shape::TryControlMut
                | Shape::FoldMut
                | Shape::TryFoldMut
        )
    }
    /// Concurrent (for_each-style) call, i.e. honours `limit`.
    pub fn is_concurrent(self) -> bool {
        !self.is_stream() && !self.is_fold()
    }
}

#[derive(Clone, Copy, Debug, PartialEq, Eq, Hash, Serialize, Deserialize)]
pub struct Api {
    pub shape: Shape,
    /// `_with` entry point (takes `StreamOpts`) or the plain wrapper.
    pub with: bool,
}

impl Api {
    pub fn name(&self) -> String {
        let base = match self.shape {
            Shape::ForEach => "for_each_concurrent",
            Shape::ForEachMut => "for_each_concurrent_mut",
            Shape::TryForEach => "try_for_each_concurrent",
            Shape::TryForEachMut => "try_for_each_concurrent_mut",
            Shape::TryControl => "try_for_each_concurrent_control",
            Shape::TryControlMut => "try_for_each_concurrent_control_mut",
            Shape::Fold => "fold_async",
            Shape::FoldMut => "fold_async_mut",
            Shape::TryFold => "try_fold_async",
            Shape::TryFoldMut => "try_fold_async_mut",
            Shape::Stream => "stream",
            Shape::StreamIntr => {
                return if self.with {
                    "stream_with_interruptible".into()
                } else {
                    "stream_interruptible".into()
                }
            }
        };
        if self.with {
            format!("{base}_with")
        } else {
            base.to_string()
        }
    }
}

#[derive(Clone, Copy, Debug, PartialEq, Eq, Hash, Serialize, Deserialize)]
pub enum Strat {
    /// `Interruptibility::NonInterruptible`.
    NonInterruptible,
    IgnoreInterruptions,
    FinishCurrent,
    PollNextN(u64),
}

impl Strat {
    /// Can a signal change which functions run?
    pub fn effective(self) -> bool {
        matches!(self, Strat::FinishCurrent | Strat::PollNextN(_))
    }
    pub fn has_channel(self) -> bool {
        !matches!(self, Strat::NonInterruptible)
    }
}

#[derive(Clone, Debug, PartialEq, Eq, Hash, Serialize, Deserialize)]
pub struct RunCfg {
    pub api: Api,
    pub rev: bool,
    pub limit: Option<usize>,
    pub strat: Strat,
    pub include: bool,
    pub failing: Vec<usize>,
    /// Per function: how often its user future yields (self-wake) before
    /// honouring its release.
    pub yields: Vec<u8>,
    /// Drop the call future / the stream after this many actions (abnormal end).
    #[serde(default)]
    pub abort_after: Option<usize>,
    /// Functions whose user future completes on its first poll (after its
    /// yields) without waiting for a release.
    #[serde(default)]
    pub instant: Vec<usize>,
    /// Drive the call / stream inside tokio task polls (current-thread runtime),
    /// so that tokio's cooperative budget (128 operations per task poll) is in
    /// force; `Act::Yield` ends a task poll.
    #[serde(default)]
    pub coop: bool,
    /// The interrupt sender is dropped right after the signal has been sent (a
    /// one-shot ctrl-c task that exits).
    #[serde(default)]
    pub drop_sender: bool,
    /// j >= 1: the interruptibility state handed to the call has already received
    /// the signal and counted j item polls, as a state shared (`reborrow`) with an
    /// earlier interrupted run has; 0: a fresh state.
    #[serde(default)]
    pub pre_interrupted: u8,
    /// Single runs only: the run is made on a `clone()` of the built graph (the
    /// original is dropped first); a clone of a built graph is a built graph.
    #[serde(default)]
    pub on_clone: bool,
    /// Streams only: the `FnRef`s of these functions are dropped by the unwinding of
    /// a panic that the consumer contains (`catch_unwind`, a worker that dies) instead
    /// of an ordinary drop.
    #[serde(default)]
    pub unwind: Vec<usize>,
    /// With `rev`: `StreamOpts::rev()` is called `1 + rev_again` times (documented:
    /// "multiple calls to this function will be the same as one call").
    #[serde(default)]
    pub rev_again: u8,
    /// Order in which the `StreamOpts` builder methods are called (0..6: the
    /// permutations of rev / interruptibility_state / interrupted_next_item_include).
    #[serde(default)]
    pub opts_order: u8,
}

impl RunCfg {
    pub fn unlimited(&self) -> bool {
        matches!(self.limit, None | Some(0))
    }
}

/// Generation weights; each property tweaks a copy.
#[derive(Clone, Debug)]
pub struct Profile {
    /// Upper bound of the medium size class.
    pub max_n: usize,
    /// Percentage of wide graphs (65..=140 functions).
    pub pct_wide: usize,
    /// Percentage of medium graphs (9..=max_n).
    pub pct_medium: usize,
    /// Per-mille of huge graphs (257..=320 functions, fan-in / fan-out shapes:
    /// more predecessors / successors than fit in a byte).
    pub permille_huge: usize,
    /// Weighted API list.
    pub apis: Vec<(Api, usize)>,
    /// Are interrupt strategies generated (only meaningful in the intr build)?
    pub interrupts: bool,
    /// Only effective strategies (C08).
    pub only_effective_strats: bool,
    /// Percentage of try-runs with a non-empty failing set.
    pub pct_failing: usize,
    /// Generate limits (otherwise always None/0).
    pub limits: bool,
    /// Force limit >= 1 (C10).
    pub force_limit: bool,
    /// Allow duplicate entries in access lists.
    pub dup_access: bool,
    /// Cap on the number of root paths (exclusion while C18's defect is open);
    /// `None` = no cap.
    pub root_path_cap: Option<u64>,
    /// Generate runs that are dropped midway.
    pub aborts: bool,
    /// Generate runs driven inside tokio task polls (cooperative budget active).
    pub coop: bool,
    /// One medium graph in `fan_den` is a fan (hub before / sink after all others).
    pub fan_den: usize,
    /// Size ladder: the graph has exactly this many functions (all shapes of the
    /// wide class, whatever the size).
    pub force_n: Option<usize>,
}

impl Profile {
    pub fn base(max_n: usize) -> Self {
        Profile {
            max_n,
            pct_wide: 3,
            pct_medium: 17,
            permille_huge: 2,
            apis: Vec::new(),
            interrupts: true,
            only_effective_strats: false,
            pct_failing: 50,
            limits: true,
            force_limit: false,
            dup_access: true,
            root_path_cap: None,
            aborts: false,
            coop: false,
            fan_den: 6,
            force_n: None,
        }
    }
    pub fn with_apis(mut self, shapes: &[Shape], w_with: usize, w_plain: usize) -> Self {
        for &s in shapes {
            if w_with > 0 {
                self.apis.push((Api { shape: s, with: true }, w_with));
            }
            if w_plain > 0 {
                self.apis.push((
                    Api {
                        shape: s,
                        with: false,
                    },
                    w_plain,
                ));
            }
        }
        self
    }
}

pub fn pick_weighted<T: Copy>(t: &mut Tape, items: &[(T, usize)]) -> T {
    let total: usize = items.iter().map(|x| x.1).sum();
    let mut r = t.below(total);
    for (it, w) in items {
        if r < *w {
            return *it;
        }
        r -= *w;
    }
    items[0].0
}

/// Size class labels used in the evidence histogram.
pub fn size_class(n: usize) -> &'static str {
    match n {
        0 => "n=0",
        1..=8 => "n=1..8",
        9..=40 => "n=9..40",
        41..=256 => "n=wide(41..140)",
        _ => "n=huge(257..320)",
    }
}

/// Decode an acyclic graph spec (run-time properties): edges only go forward in
/// a hidden random permutation, so nothing is filtered.
pub fn decode_spec(t: &mut Tape, p: &Profile) -> GraphSpec {
    let class1000 = t.below(1000);
    let huge = p.force_n.is_none() && class1000 >= 1000 - p.permille_huge;
    let class = class1000 / 10;
    let wide = p.force_n.is_some() || huge || class >= 100 - p.pct_wide;
    let medium = !wide && class >= 100 - p.pct_wide - p.pct_medium;
    let n = if let Some(n) = p.force_n {
        n
    } else if huge {
        257 + t.below(64)
    } else if wide {
        // 41..=140, one in five exactly at a power-of-two boundary
        if t.chance(1, 5) {
            [63usize, 64, 65, 127, 128, 129][t.below(6)]
        } else {
            41 + t.below(100)
        }
    } else if medium {
        9 + t.below(p.max_n.saturating_sub(8).max(1))
    } else {
        t.below(9)
    };
    if wide {
        // hundreds of functions need more choices than the tape holds
        t.enable_tail();
    }
    // medium graphs: one in `fan_den` is a fan (a hub before / a sink after all
    // others, sparse access declarations): 9 or more functions become ready by one
    // completion
    let fan_medium = medium && t.chance(1, p.fan_den.max(1));
    // access declarations
    let many_types = !wide && !fan_medium && t.chance(1, 40);
    let n_types = if many_types {
        // more data types than fit in a 64-bit mask / an inline small vector
        65 + t.below((crate::model::N_TYPES_MAX - 64) as usize) as u8
    } else {
        1 + t.below(N_TYPES as usize) as u8
    };
    let den = if wide || fan_medium {
        [40usize, 12, 40, 80][t.below(4)]
    } else if many_types {
        // sparse or dense declarations over the large type universe: with sparse
        // ones a conflicting pair usually shares exactly one type
        [60usize, 30, 6, 4][t.below(4)]
    } else {
        [4usize, 3, 6, 10][t.below(4)]
    };
    // with the large type universe one tape value per (function, type) would use
    // up the tape after a few functions: the declarations are derived from one
    // drawn salt instead
    let salt = if many_types { t.next() as u64 | 1 } else { 0 };
    let mix = |a: u64, b: u64| -> u64 {
        let mut x = salt.wrapping_mul(0x9E37_79B9_7F4A_7C15) ^ a.wrapping_mul(0xBF58_476D_1CE4_E5B9) ^ b.wrapping_mul(0x94D0_49BB_1331_11EB);
        x ^= x >> 31;
        x = x.wrapping_mul(0xD6E8_FEB8_6659_FD93);
        x ^ (x >> 29)
    };
    let mut fns = Vec::with_capacity(n);
    for id in 0..n {
        let mut reads = vec![];
        let mut writes = vec![];
        for ty in 0..n_types {
            let r = if many_types { (mix(id as u64, ty as u64) % den as u64) as usize } else { t.below(den) };
            if r == den - 1 {
                writes.push(ty);
            } else if r == den - 2 {
                reads.push(ty);
            }
        }
        if p.dup_access && t.chance(1, 40) {
            // a duplicate / read+write of the same type
            let ty = t.below(n_types as usize) as u8;
            if t.chance(1, 2) {
                reads.push(ty);
                writes.push(ty);
            } else {
                writes.push(ty);
                writes.push(ty);
            }
        }
        fns.push(TestFn { id, reads, writes });
    }
    if many_types && n >= 2 && t.chance(1, 3) {
        // "filler" declarations: everybody reads about half of the large type
        // universe (read/read never conflicts), one to three functions write one
        // type instead: each conflicting pair conflicts on exactly one type, which
        // may be anywhere in the order in which the types were first mentioned
        for f in fns.iter_mut() {
            f.writes.clear();
            f.reads = (0..n_types).filter(|ty| mix(1000 + f.id as u64, *ty as u64) % 2 == 0).collect();
        }
        for _ in 0..1 + t.below(3) {
            let w = t.below(n);
            let ty = t.below(n_types as usize) as u8;
            fns[w].reads.retain(|x| *x != ty);
            if !fns[w].writes.contains(&ty) {
                fns[w].writes.push(ty);
            }
        }
    }
    // hidden permutation
    let mut pos: Vec<usize> = (0..n).collect(); // pos[v] = position of v in hidden order
    for i in (1..n).rev() {
        let j = t.below(i + 1);
        pos.swap(i, j);
    }
    let mut edges: Vec<(usize, usize, Kind)> = Vec::new();
    if n >= 2 {
        let variant = if huge { 1 + t.below(3) } else if wide { t.below(7) } else { 0 };
        let wide_shape = wide;
        let (wide, variant) = if fan_medium { (true, 1 + t.below(2)) } else { (wide, variant) };
        // "brooms" (half of the medium fans with >= 12 functions): two to four
        // separate components, each a chain of 0..=4 functions that ends in a fan-out
        // (or, mirrored, a fan-in that ends in a chain).  The generations of such a
        // graph are narrow where another component's are wide, so under a limit the
        // functions waiting for a slot come from generations that are far apart.
        let brooms = fan_medium && n >= 12 && t.chance(1, 2);
        if brooms {
            let mut order: Vec<usize> = (0..n).collect();
            order.sort_by_key(|v| pos[*v]);
            let parts = 2 + t.below(3);
            let mirrored = t.chance(1, 2);
            let mut start = 0;
            for part in 0..parts {
                let left = n - start;
                let size = if part + 1 == parts { left } else { (left / (parts - part)).max(1) + t.below(3).min(left.saturating_sub(1)) };
                let size = size.min(left);
                if size == 0 {
                    break;
                }
                let members = &order[start..start + size];
                start += size;
                let chain = t.below(5).min(size - 1);
                let mut e: Vec<(usize, usize)> = vec![];
                for i in 0..chain {
                    e.push((members[i], members[i + 1]));
                }
                for v in &members[chain + 1..] {
                    e.push((members[chain], *v));
                }
                for (a, b) in e {
                    edges.push(if mirrored { (b, a, kind(t)) } else { (a, b, kind(t)) });
                }
            }
        } else
        if wide && (variant == 3 && huge || variant == 4) {
            // data-only fan-in / fan-out: every function reads type 0 except one
            // writer (last or first in insertion order); no user edges at all
            let writer = if t.chance(1, 2) { n - 1 } else { 0 };
            for f in fns.iter_mut() {
                f.reads = vec![0];
                f.writes = vec![];
            }
            fns[writer].reads = vec![];
            fns[writer].writes = vec![0];
        } else
        if wide && variant == 1 {
            // fan-out: one hub before everyone (second layer of n-1 functions becomes ready at once)
            let hub = t.below(n);
            for v in 0..n {
                if v != hub {
                    edges.push((hub, v, kind(t)));
                }
            }
        } else if wide_shape && !huge && variant >= 5 {
            // k-ary tree (variant 5) / inverted tree (variant 6) in the hidden order:
            // one root (sink), the set of ready functions widens gradually, by k - 1
            // per completion
            let k = 2 + t.below(3);
            let mut order: Vec<usize> = (0..n).collect();
            order.sort_by_key(|v| pos[*v]);
            for i in 1..n {
                let parent = order[(i - 1) / k];
                let child = order[i];
                if variant == 5 {
                    edges.push((parent, child, kind(t)));
                } else {
                    edges.push((child, parent, kind(t)));
                }
            }
        } else if wide && variant == 2 {
            // fan-in: everyone before one sink (reverse order: n-1 ready at once after the sink)
            let sink = t.below(n);
            for v in 0..n {
                if v != sink {
                    edges.push((v, sink, kind(t)));
                }
            }
        } else {
            let max_m = if wide_shape {
                n / 4
            } else {
                [n, n / 2, 2 * n, n * (n - 1) / 2][t.below(4)]
            };
            let m = t.below(max_m + 1);
            for _ in 0..m {
                let a = t.below(n);
                let mut b = t.below(n - 1);
                if b >= a {
                    b += 1;
                }
                let (a, b) = if pos[a] < pos[b] { (a, b) } else { (b, a) };
                edges.push((a, b, kind(t)));
            }
        }
    }
    // occasionally a single-edge call that the builder must reject (the reverse of an
    // accepted edge, given after it): the caller ignores the error and carries on, the
    // graph that is built and run is the same as without that call
    if !wide && !edges.is_empty() && t.chance(1, 10) {
        let e = edges[t.below(edges.len())];
        edges.push((e.1, e.0, kind(t)));
    }
    // occasionally a batch call after the single ones: it may repeat an existing
    // pair and may contain a cycle-closing pair, which the builder must reject
    // without touching the edges accepted earlier
    let mut batches: Vec<(Vec<(usize, usize)>, Kind)> = vec![];
    if !wide && n >= 2 && !edges.is_empty() && t.chance(1, 12) {
        let len = 1 + t.below(3);
        let mut pairs = vec![];
        for _ in 0..len {
            let e = edges[t.below(edges.len())];
            pairs.push(match t.below(3) {
                0 => (e.0, e.1),
                1 => (e.1, e.0),
                _ => {
                    let a = t.below(n);
                    let mut b = t.below(n - 1);
                    if b >= a {
                        b += 1;
                    }
                    if pos[a] < pos[b] { (a, b) } else { (b, a) }
                }
            });
        }
        batches.push((pairs, kind(t)));
    }
    // one case in six inserts the functions through the batch form `add_fns`
    let add_mode = if t.chance(1, 6) { 1 + t.below(2) as u8 } else { 0 };
    let mut spec = GraphSpec { fns, edges, batches, add_mode };
    if let Some(cap) = p.root_path_cap {
        // Construction-time exclusion: drop trailing edges until the cap holds.
        loop {
            let ue = crate::model::user_edges(n, &spec.flat_calls()).edges;
            if crate::model::root_path_count(n, &ue) <= cap {
                break;
            }
            spec.edges.pop();
        }
    }
    spec
}

fn kind(t: &mut Tape) -> Kind {
    if t.chance(1, 2) {
        Kind::Contains
    } else {
        Kind::Logic
    }
}

/// Decode the run configuration.  `intr` says whether the binary has the
/// `interruptible` feature (otherwise the strategy is always non-interruptible).
pub fn decode_cfg(t: &mut Tape, p: &Profile, n: usize, intr: bool) -> RunCfg {
    if n > 16 {
        // per-function choices (failing set, yields, instant completion) of larger
        // graphs need more values than the configuration tape holds
        t.enable_tail();
    }
    let api = pick_weighted(t, &p.apis);
    let mut rev = t.chance(1, 2);
    let limit = if !p.limits {
        if t.chance(1, 2) {
            Some(0)
        } else {
            None
        }
    } else if p.force_limit {
        if t.chance(1, 8) {
            Some([n.max(1), n + 1, 1000, u32::MAX as usize, 1usize << 60, usize::MAX][t.below(6)])
        } else {
            Some(1 + t.below(4))
        }
    } else {
        match t.below(6) {
            0 => None,
            1 => Some(0),
            2 if t.chance(1, 3) => {
                // limits at and far beyond the number of functions
                Some([n.max(1), n + 1, 1000, u32::MAX as usize, 1usize << 60, usize::MAX][t.below(6)])
            }
            _ => Some(1 + t.below(4)),
        }
    };
    let mut strat = if !(intr && p.interrupts) {
        let _ = t.next();
        Strat::NonInterruptible
    } else if p.only_effective_strats {
        match t.below(4) {
            0 | 1 => Strat::FinishCurrent,
            _ => Strat::PollNextN(t.below(4) as u64),
        }
    } else {
        match t.below(6) {
            0 | 1 => Strat::NonInterruptible,
            2 => Strat::IgnoreInterruptions,
            3 => Strat::FinishCurrent,
            _ => Strat::PollNextN(t.below(4) as u64),
        }
    };
    let mut include = !t.chance(1, 2);
    let mut failing = vec![];
    if api.shape.is_try() && t.below(100) >= 100 - p.pct_failing.min(100) && n > 0 {
        let fden = [4usize, 2, 8, 16][t.below(4)];
        for i in 0..n {
            if t.chance(1, fden) {
                failing.push(i);
            }
        }
        if failing.is_empty() {
            failing.push(t.below(n));
        }
    }
    let ymode = t.below(3);
    let yields: Vec<u8> = match ymode {
        0 => vec![0; n],
        1 => (0..n).map(|i| (i % 3) as u8).collect(),
        _ => (0..n).map(|_| t.below(3) as u8).collect(),
    };
    let abort_after = if p.aborts && t.chance(1, 8) {
        Some(t.below(24))
    } else {
        None
    };
    let instant: Vec<usize> = match t.below(4) {
        0 | 1 => vec![],
        2 => (0..n).collect(),
        _ => (0..n).filter(|_| t.chance(1, 2)).collect(),
    };
    let coop = p.coop && t.chance(1, 5);
    let drop_sender = t.chance(1, 4);
    let mut pre_interrupted = if intr && p.interrupts && t.chance(1, 12) { 1 + t.below(3) as u8 } else { 0 };
    if !api.with || matches!(strat, Strat::NonInterruptible) || api.shape == Shape::Stream {
        pre_interrupted = 0;
    }
    let on_clone = t.chance(1, 10);
    let rev_again = if t.chance(1, 8) { 1 + t.below(2) as u8 } else { 0 };
    let opts_order = t.below(6) as u8;
    let unwind: Vec<usize> = if api.shape.is_stream() && t.chance(1, 10) {
        let all = t.chance(1, 3);
        (0..n).filter(|_| all || t.chance(1, 3)).collect()
    } else {
        vec![]
    };
    if !api.with {
        rev = false;
        strat = Strat::NonInterruptible;
        include = true;
    }
    if api.shape == Shape::Stream {
        // stream()/stream_with() ignore interruptibility
        strat = Strat::NonInterruptible;
    }
    RunCfg {
        api,
        rev,
        limit: if api.shape.is_concurrent() { limit } else { None },
        strat,
        include,
        failing,
        yields,
        abort_after,
        instant: if api.shape.is_stream() { vec![] } else { instant },
        coop,
        drop_sender,
        pre_interrupted,
        on_clone,
        unwind,
        rev_again,
        opts_order,
    }
}
