pub mod builder;
pub mod c18;
pub mod driver;
pub mod findings;
pub mod gen;
pub mod model;
pub mod seq;
pub mod tape;
pub mod violation;
pub mod watch;

// everything below drives fn_graph's streaming API (feature `async`, on by default)
#[cfg(feature = "async_apis")]
pub mod cases;
#[cfg(feature = "async_apis")]
pub mod exhaust;
#[cfg(feature = "async_apis")]
pub mod explore;
#[cfg(feature = "async_apis")]
pub mod fuzzing;
#[cfg(feature = "async_apis")]
pub mod multi;
#[cfg(feature = "async_apis")]
pub mod oracle;
#[cfg(feature = "async_apis")]
pub mod single;
#[cfg(feature = "async_apis")]
pub mod threads;
