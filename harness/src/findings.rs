//! Known findings: `/verif/known_findings.json` is committed and never written
//! at run time.  `open` entries suppress exactly one signature each (and the
//! check prints a KNOWN-FINDING line for them); `fixed` entries suppress
//! nothing.

use serde::{Deserialize, Serialize};
use serde_json::Value;

use crate::violation::Violation;

#[derive(Clone, Debug, Serialize, Deserialize)]
pub struct Signature {
    /// Violation kind that must match exactly.
    pub kind: String,
    /// If present: the decoded case's API shape must be one of these.
    #[serde(default)]
    pub shapes: Option<Vec<String>>,
    /// If present: number of functions of the decoded case.
    #[serde(default)]
    pub n: Option<usize>,
}

#[derive(Clone, Debug, Serialize, Deserialize)]
pub struct Finding {
    pub id: String,
    pub property: String,
    /// "open" or "fixed".
    pub status: String,
    pub what: String,
    #[serde(default)]
    pub commit: Option<String>,
    #[serde(default)]
    pub signature: Option<Signature>,
    /// Stored reproducer (replay file) relative to /verif.
    #[serde(default)]
    pub reproducer: Option<String>,
}

#[derive(Clone, Debug, Default, Serialize, Deserialize)]
pub struct Findings {
    pub findings: Vec<Finding>,
}

impl Findings {
    pub fn load(verif_dir: &str) -> Findings {
        let p = format!("{verif_dir}/known_findings.json");
        match std::fs::read_to_string(&p) {
            Ok(s) => serde_json::from_str(&s).unwrap_or_else(|e| {
                eprintln!("cannot parse {p}: {e}");
                std::process::exit(2);
            }),
            Err(_) => Findings::default(),
        }
    }

    pub fn open_for(&self, prop: &str) -> Vec<&Finding> {
        self.findings
            .iter()
            .filter(|f| f.property == prop && f.status == "open")
            .collect()
    }

    /// Does this violation (of `prop`) match an open finding?
    pub fn classify(&self, prop: &str, v: &Violation, decoded: &Value) -> Option<String> {
        for f in self.open_for(prop) {
            let Some(sig) = &f.signature else { continue };
            if sig.kind != v.kind {
                continue;
            }
            if let Some(shapes) = &sig.shapes {
                let shape = decoded
                    .pointer("/case/cfg/api/shape")
                    .and_then(|s| s.as_str())
                    .unwrap_or("");
                if !shapes.iter().any(|s| s == shape) {
                    continue;
                }
            }
            if let Some(n) = sig.n {
                let cn = decoded
                    .pointer("/case/spec/fns")
                    .and_then(|a| a.as_array())
                    .map(|a| a.len());
                if cn != Some(n) {
                    continue;
                }
            }
            return Some(f.id.clone());
        }
        None
    }
}
