//! Run-time oracles: every property that speaks about one streaming call is an
//! executable predicate over (spec, built graph facts, configuration, trace,
//! returned value).  All oracles are evaluated on every run; the driver decides
//! which property's violations are fatal for the check at hand.

use std::collections::BTreeSet;

use serde::{Deserialize, Serialize};

use crate::explore::{Act, EngineViolation, Ev, Ret};
use crate::gen::{RunCfg, Shape, Strat};
use crate::model::{GraphFacts, Kind};

pub use crate::violation::Violation;

fn v(prop: &str, kind: &str, msg: String) -> Violation {
    Violation {
        prop: prop.into(),
        kind: kind.into(),
        msg,
    }
}

/// Facts about one run, used for labels and the non-trivial rules.
#[derive(Clone, Debug, Default)]
pub struct RunStats {
    pub n: usize,
    pub started: Vec<usize>,
    pub failed: Vec<usize>,
    pub max_inflight: usize,
    pub signal_sent: bool,
    pub effective_interrupt: bool,
    pub unstarted_at_signal: usize,
    pub inflight_at_signal: usize,
    pub starts_after_signal: usize,
    pub quiet_points: usize,
    pub quiet_with_unstarted: usize,
    pub limit_binding: bool,
    pub overtaking: bool,
    pub failed_with_successor: bool,
    pub max_ready_unstarted: usize,
    pub max_completes_between_polls: usize,
    pub complete_while_quiet: bool,
    pub clean: bool,
    pub completed: bool,
}

pub fn structural_c06(facts: &GraphFacts) -> Vec<Violation> {
    let mut out = vec![];
    for &(a, b, k) in &facts.built {
        let is_user = facts.user.iter().any(|e| e.0 == a && e.1 == b);
        if is_user {
            continue;
        }
        if k != Kind::Data {
            out.push(v(
                "C06",
                "extra-edge-not-data",
                format!("built edge {a}->{b} of kind {k:?} was not added by the user"),
            ));
        } else if !facts.conflicts.get(a, b) {
            out.push(v(
                "C06",
                "data-edge-without-conflict",
                format!("Data edge {a}->{b} joins functions without conflicting access"),
            ));
        }
    }
    out
}

pub fn check_run(
    facts: &GraphFacts,
    cfg: &RunCfg,
    trace: &[Ev],
    acts: &[Act],
    ret: &Ret,
    engine: &[EngineViolation],
) -> (Vec<Violation>, RunStats) {
    let n = facts.n;
    let shape = cfg.api.shape;
    let is_stream = shape.is_stream();
    let is_fold = shape.is_fold();
    let rev = cfg.rev;
    let pred = facts.pred_built(rev);
    let mut out: Vec<Violation> = engine
        .iter()
        .map(|e| v(&e.prop, &e.kind, e.msg.clone()))
        .collect();
    let mut st = RunStats {
        n,
        ..Default::default()
    };

    let mut inflight: BTreeSet<usize> = BTreeSet::new();
    let mut ended = vec![false; n];
    let mut started_flag = vec![false; n];
    let mut signal_seen = false;
    let effective_strat = cfg.strat.effective() && (!is_stream || shape == Shape::StreamIntr);
    let user_has_preds: Vec<bool> = {
        let mut p = vec![false; n];
        for &(a, b, _) in &facts.user {
            if rev {
                p[a] = true;
            } else {
                p[b] = true;
            }
        }
        p
    };

    let ready_unstarted = |started_flag: &[bool], ended: &[bool]| -> Vec<usize> {
        (0..n)
            .filter(|x| !started_flag[*x] && pred[*x].iter().all(|u| ended[*u]))
            .collect()
    };

    for ev in trace {
        match ev {
            Ev::Start(x) => {
                let x = *x;
                if x >= n {
                    out.push(v("C03", "unknown-id", format!("started unknown id {x}")));
                    continue;
                }
                if started_flag[x] {
                    out.push(v(
                        "C03",
                        "double-start",
                        format!("function {x} handed out twice"),
                    ));
                }
                for &u in &inflight {
                    if facts.conflicts.get(u, x) {
                        out.push(v(
                            "C01",
                            "overlap",
                            format!("conflicting functions {u} and {x} in flight together"),
                        ));
                    }
                }
                for u in 0..n {
                    if u != x && facts.user_before(u, x, rev) && !ended[u] {
                        out.push(v(
                            "C02",
                            "started-before-dependency",
                            format!(
                                "function {x} handed out before {u} returned (rev={rev})"
                            ),
                        ));
                    }
                }
                if shape.is_try() {
                    for &f in &st.failed {
                        if is_fold {
                            out.push(v(
                                "C07",
                                "fold-continued-after-error",
                                format!("function {x} invoked after {f} failed"),
                            ));
                        } else if facts.built_after(f, x, rev) {
                            out.push(v(
                                "C07",
                                "dependent-of-failed-started",
                                format!("function {x} is ordered after failed {f} but was started"),
                            ));
                        }
                    }
                }
                if user_has_preds[x] && !inflight.is_empty() {
                    st.overtaking = true;
                }
                started_flag[x] = true;
                st.started.push(x);
                inflight.insert(x);
                st.max_inflight = st.max_inflight.max(inflight.len());
                if signal_seen {
                    st.starts_after_signal += 1;
                }
            }
            Ev::End(x, failed) => {
                let x = *x;
                if x >= n {
                    continue;
                }
                inflight.remove(&x);
                ended[x] = true;
                if *failed {
                    st.failed.push(x);
                    // "no function ordered after a failed one ... is *ever* started": one
                    // that was started before the failed function even returned breaks that
                    // too (it can only happen when the run does not follow the requested
                    // order, e.g. options whose direction was lost on the way)
                    if shape.is_try() && !is_fold {
                        for &y in &st.started {
                            if y != x && facts.built_after(x, y, rev) {
                                out.push(v(
                                    "C07",
                                    "dependent-of-failed-had-run",
                                    format!("function {y} is ordered after failed {x} (rev={rev}) but had already been started when {x} failed"),
                                ));
                            }
                        }
                    }
                    let has_succ = facts
                        .built
                        .iter()
                        .any(|e| if rev { e.1 == x } else { e.0 == x });
                    if has_succ {
                        st.failed_with_successor = true;
                    }
                }
                if let Some(l) = cfg.limit {
                    if l >= 1 && shape.is_concurrent() && inflight.len() + 1 == l {
                        // it was at the limit just before this End
                        let r = ready_unstarted(&started_flag, &{
                            let mut e2 = ended.clone();
                            e2[x] = false;
                            e2
                        });
                        if !r.is_empty() {
                            st.limit_binding = true;
                        }
                    }
                }
            }
            Ev::Interrupt => {
                signal_seen = true;
                st.signal_sent = true;
                st.unstarted_at_signal = started_flag.iter().filter(|s| !**s).count();
                st.inflight_at_signal = inflight.len();
            }
            Ev::Quiet => {
                st.quiet_points += 1;
                let r = ready_unstarted(&started_flag, &ended);
                st.max_ready_unstarted = st.max_ready_unstarted.max(r.len());
                if started_flag.iter().any(|s| !*s) {
                    st.quiet_with_unstarted += 1;
                }
                let interrupted = signal_seen && effective_strat;
                if is_stream {
                    if !interrupted && !r.is_empty() {
                        out.push(v(
                            "C05",
                            "stall",
                            format!(
                                "stream pending with no wake-up signalled although {r:?} have all predecessors dropped"
                            ),
                        ));
                        out.push(v(
                            "C06",
                            "stream-idle-with-ready-function",
                            format!("stream idle although {r:?} are ready"),
                        ));
                    }
                } else if shape.is_concurrent()
                    && cfg.unlimited()
                    && !interrupted
                    && st.failed.is_empty()
                    && !r.is_empty()
                {
                    out.push(v(
                        "C06",
                        "idle-with-ready-function",
                        format!("call idle although {r:?} have all predecessors returned"),
                    ));
                }
            }
        }
    }

    st.effective_interrupt = st.signal_sent && effective_strat;
    st.completed = matches!(
        ret,
        Ret::Out(_) | Ret::ErrOut(..) | Ret::Cont(_) | Ret::Brk(..) | Ret::FoldErr(_) | Ret::StreamEnd
    );
    st.clean = st.completed && !st.effective_interrupt && st.failed.is_empty();

    // schedule-shape statistics from the action list
    {
        let mut run = 0usize;
        for a in acts {
            match a {
                Act::Complete(_) => {
                    run += 1;
                    st.max_completes_between_polls = st.max_completes_between_polls.max(run);
                }
                Act::Poll | Act::PollDropping(..) | Act::PollNesting(..) => run = 0,
                _ => {}
            }
        }
    }

    // ---- termination verdicts
    let verdict_props: &[&str] = if is_stream { &["C05"] } else { &["C04"] };
    match ret {
        Ret::Deadlock => {
            if !is_stream {
                out.push(v(
                    "C04",
                    "deadlock",
                    "call pending, no wake-up signalled, every started user future completed".into(),
                ));
                if st.signal_sent {
                    out.push(v("C08", "deadlock-after-signal", "call never returns after the interrupt signal".into()));
                }
                if matches!(cfg.limit, Some(l) if l >= 1) && shape.is_concurrent() {
                    out.push(v("C10", "deadlock-under-limit", format!("call with limit {:?} never returns", cfg.limit)));
                }
                if !st.failed.is_empty() {
                    out.push(v("C07", "deadlock-after-failure", "call never returns after a failure".into()));
                }
            }
        }
        Ret::Livelock => {
            for p in verdict_props {
                out.push(v(p, "livelock", "poll guard exceeded without external event".into()));
            }
            if matches!(cfg.limit, Some(l) if l >= 1) && shape.is_concurrent() {
                out.push(v("C10", "livelock-under-limit", format!("call with limit {:?} never returns (polled without end)", cfg.limit)));
            }
        }
        Ret::Panic(m) => {
            for p in verdict_props {
                out.push(v(p, "panic", format!("panicked: {m}")));
            }
            // a failed call must *return* its errors; one that panics instead does not
            if !is_stream && !st.failed.is_empty() {
                out.push(v("C07", "panic-after-failure", format!("call panicked after a function failed: {m}")));
            }
            if matches!(cfg.limit, Some(l) if l >= 1) && shape.is_concurrent() && st.failed.is_empty() && !st.signal_sent {
                out.push(v("C10", "panic-under-limit", format!("call with limit {:?} panicked: {m}", cfg.limit)));
            }
        }
        _ => {}
    }
    if st.completed && !is_stream && !inflight.is_empty() {
        out.push(v(
            "C04",
            "returned-with-futures-in-flight",
            format!("call returned while user futures {inflight:?} had not completed"),
        ));
        if !st.failed.is_empty() {
            out.push(v(
                "C07",
                "returned-before-inflight-finished",
                format!("failed call returned while {inflight:?} were still running"),
            ));
        }
        if st.signal_sent {
            out.push(v(
                "C08",
                "returned-before-inflight-finished",
                format!("interrupted call returned while {inflight:?} were still running"),
            ));
        }
    }

    // ---- C03 clean-run completeness
    if st.clean {
        let mut s = st.started.clone();
        s.sort();
        s.dedup();
        if s.len() != n {
            let missing: Vec<usize> = (0..n).filter(|i| !started_flag[*i]).collect();
            out.push(v(
                "C03",
                "clean-run-incomplete",
                format!("clean run ended without handing out {missing:?}"),
            ));
            if matches!(cfg.limit, Some(l) if l >= 1) && shape.is_concurrent() {
                out.push(v(
                    "C10",
                    "limit-blocks-completion",
                    format!("clean run with limit {:?} ended without {missing:?}", cfg.limit),
                ));
            }
        }
    }

    // ---- C10
    if is_fold {
        if st.max_inflight > 1 {
            out.push(v(
                "C10",
                "fold-concurrent",
                format!("{} user futures in flight in a fold call", st.max_inflight),
            ));
        }
    } else if shape.is_concurrent() {
        if let Some(l) = cfg.limit {
            if l >= 1 && st.max_inflight > l {
                out.push(v(
                    "C10",
                    "limit-exceeded",
                    format!("{} user futures in flight with limit {l}", st.max_inflight),
                ));
            }
        }
    }

    // ---- C08 bounds
    if st.signal_sent && effective_strat {
        let bound = match cfg.strat {
            Strat::FinishCurrent | Strat::PollNextN(0) => {
                if is_stream || cfg.include {
                    1
                } else {
                    0
                }
            }
            Strat::PollNextN(k) => k as usize,
            _ => usize::MAX,
        };
        if st.starts_after_signal > bound {
            out.push(v(
                "C08",
                "too-many-starts-after-signal",
                format!(
                    "{} functions started after the signal, bound {bound} ({:?}, include={})",
                    st.starts_after_signal, cfg.strat, cfg.include
                ),
            ));
        }
        // signal pending before the call began
        let pre = trace.first() == Some(&Ev::Interrupt)
            && (acts.first() == Some(&Act::Interrupt) || cfg.pre_interrupted > 0);
        if pre {
            let b2 = match cfg.strat {
                Strat::FinishCurrent | Strat::PollNextN(0) => 0,
                Strat::PollNextN(k) => k as usize,
                _ => usize::MAX,
            };
            if st.started.len() > b2 {
                out.push(v(
                    "C08",
                    "ran-despite-pending-signal",
                    format!(
                        "{} functions ran although the signal was pending before the call ({:?})",
                        st.started.len(),
                        cfg.strat
                    ),
                ));
            }
        }
    }
    if st.signal_sent {
        if let Some(o) = ret.outcome() {
            for s in &st.started {
                if !o.processed.contains(s) {
                    out.push(v(
                        "C08",
                        "started-not-reported",
                        format!("function {s} was started but is not in fn_ids_processed"),
                    ));
                }
            }
        }
    }

    // ---- C09
    if let Some(o) = ret.outcome() {
        if o.processed != st.started {
            out.push(v(
                "C09",
                "processed-mismatch",
                format!("fn_ids_processed {:?} != started {:?}", o.processed, st.started),
            ));
        }
        let exp: Vec<usize> = (0..n).filter(|i| !started_flag[*i]).collect();
        if o.not_processed != exp {
            out.push(v(
                "C09",
                "not-processed-mismatch",
                format!("fn_ids_not_processed {:?} != {:?}", o.not_processed, exp),
            ));
        }
        let all = st.started.len() == n && exp.is_empty();
        if (o.state == "Finished") != all {
            out.push(v(
                "C09",
                "state-mismatch",
                format!("state {} but all-processed={all}", o.state),
            ));
        } else if !all && o.state != "Interrupted" {
            out.push(v(
                "C09",
                "state-mismatch",
                format!("state {} for a partially processed graph", o.state),
            ));
        }
        match ret {
            Ret::Cont(_) => {
                if !all || !st.failed.is_empty() {
                    out.push(v(
                        "C09",
                        "continue-mismatch",
                        format!("Continue returned but all-processed={all} failed={:?}", st.failed),
                    ));
                }
            }
            Ret::Brk(..) => {
                if all && st.failed.is_empty() {
                    out.push(v(
                        "C09",
                        "break-mismatch",
                        "Break returned although the run finished and nothing broke".into(),
                    ));
                }
            }
            _ => {}
        }
    }

    // ---- C07 results
    if shape.is_try() && st.completed {
        let mut fsorted = st.failed.clone();
        fsorted.sort();
        match ret {
            Ret::Out(_) | Ret::Cont(_) => {
                if !fsorted.is_empty() {
                    out.push(v(
                        "C07",
                        "errors-lost",
                        format!("call returned Ok/Continue although {fsorted:?} failed"),
                    ));
                }
            }
            Ret::ErrOut(_, e) | Ret::Brk(_, e) => {
                let mut e = e.clone();
                e.sort();
                if e != fsorted {
                    out.push(v(
                        "C07",
                        "errors-mismatch",
                        format!("returned errors {e:?} but failed functions were {fsorted:?}"),
                    ));
                }
                if matches!(ret, Ret::ErrOut(..)) && e.is_empty() {
                    out.push(v("C07", "err-without-errors", "Err returned with no error".into()));
                }
            }
            Ret::FoldErr(e) => {
                if st.failed != vec![*e] {
                    out.push(v(
                        "C07",
                        "fold-error-mismatch",
                        format!("try_fold returned error {e} but failures were {:?}", st.failed),
                    ));
                }
            }
            _ => {}
        }
    }

    (out, st)
}
