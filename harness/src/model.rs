//! Specification-level model: the stored function type, graph specs, and
//! reference algorithms written from the property texts (never from the code
//! under test).

use std::any::TypeId;
use std::cell::Cell;

use fn_graph::{DataAccessDyn, Edge, FnGraph, FnGraphBuilder, FnId, TypeIds};
use serde::{Deserialize, Serialize};

/// Number of distinct marker data types used by the run-time generators.
pub const N_TYPES: u8 = 4;
/// Number of marker data types available in total (the builder generator
/// occasionally uses all of them, so that a function can declare more accesses
/// than fit in a `TypeIds` small vector's inline storage of 8).
pub const N_TYPES_MAX: u8 = 80;

/// Marker data type number `N`.
pub struct D<const N: usize>;

macro_rules! type_id_table {
    ($i:expr; $($n:literal)*) => {
        match $i {
            $($n => TypeId::of::<D<$n>>(),)*
            _ => TypeId::of::<D<255>>(),
        }
    };
}

pub fn type_id(i: u8) -> TypeId {
    type_id_table!(i; 0 1 2 3 4 5 6 7 8 9 10 11 12 13 14 15 16 17 18 19 20 21 22 23 24 25 26 27 28 29 30 31 32 33 34 35 36 37 38 39 40 41 42 43 44 45 46 47 48 49 50 51 52 53 54 55 56 57 58 59 60 61 62 63 64 65 66 67 68 69 70 71 72 73 74 75 76 77 78 79)
}

thread_local! {
    /// Number of `borrows()` / `borrow_muts()` calls on this thread (hook-free
    /// work observation for C18).
    pub static ACCESS_CALLS: Cell<u64> = const { Cell::new(0) };
}

pub fn access_calls_reset() {
    ACCESS_CALLS.with(|c| c.set(0));
}
pub fn access_calls() -> u64 {
    ACCESS_CALLS.with(|c| c.get())
}

/// The function type stored in every generated graph.
#[derive(Clone, Debug, PartialEq, Eq, Hash, Serialize, Deserialize)]
pub struct TestFn {
    pub id: usize,
    pub reads: Vec<u8>,
    pub writes: Vec<u8>,
}

impl TestFn {
    /// A quarter of the functions (a pure function of the declaration) hand out
    /// their access lists in heap-allocated `TypeIds` (capacity reserved up front,
    /// as a composite function merging its steps' lists does), whatever the length.
    fn heap_lists(&self) -> bool {
        (self.id + 3 * self.reads.len() + 5 * self.writes.len()) % 4 == 1
    }
    fn list(&self, tys: &[u8]) -> TypeIds {
        if self.heap_lists() {
            let mut t = TypeIds::with_capacity(16);
            t.extend(tys.iter().map(|i| type_id(*i)));
            t
        } else {
            tys.iter().map(|i| type_id(*i)).collect()
        }
    }
}

impl DataAccessDyn for TestFn {
    fn borrows(&self) -> TypeIds {
        ACCESS_CALLS.with(|c| c.set(c.get() + 1));
        self.list(&self.reads)
    }
    fn borrow_muts(&self) -> TypeIds {
        ACCESS_CALLS.with(|c| c.set(c.get() + 1));
        self.list(&self.writes)
    }
}

/// Conflict relation, written from the property text: both access the same
/// data type and at least one of them mutably.
pub fn conflict(a: &TestFn, b: &TestFn) -> bool {
    a.writes
        .iter()
        .any(|t| b.reads.contains(t) || b.writes.contains(t))
        || b.writes
            .iter()
            .any(|t| a.reads.contains(t) || a.writes.contains(t))
}

/// Both only share read access on some type (and do not conflict).
pub fn read_sharing(a: &TestFn, b: &TestFn) -> bool {
    !conflict(a, b) && a.reads.iter().any(|t| b.reads.contains(t))
}

#[derive(Clone, Copy, Debug, PartialEq, Eq, Hash, Serialize, Deserialize)]
pub enum Kind {
    Logic,
    Contains,
    Data,
}

impl Kind {
    pub fn from_edge(e: Edge) -> Kind {
        match e {
            Edge::Logic => Kind::Logic,
            Edge::Contains => Kind::Contains,
            Edge::Data => Kind::Data,
        }
    }
}

/// A graph as the user describes it: functions in insertion order and the
/// *call sequence* of edge insertions `(from, to, kind)` (kind never `Data`).
#[derive(Clone, Debug, PartialEq, Eq, Hash, Serialize, Deserialize)]
pub struct GraphSpec {
    pub fns: Vec<TestFn>,
    pub edges: Vec<(usize, usize, Kind)>,
    /// Batch calls (`add_logic_edges` / `add_contains_edges`, arity <= 3) made
    /// after the single-edge calls; a batch is applied pair by pair and stops at
    /// the first rejected pair, earlier pairs of the batch stay.
    #[serde(default)]
    pub batches: Vec<(Vec<(usize, usize)>, Kind)>,
    /// How the functions are inserted: 0 = one `add_fn` call each; 1 = `add_fns`
    /// calls of arity 3 (the remainder by one smaller `add_fns` call); 2 =
    /// alternately an `add_fns` call of arity 2 and an `add_fn` call.  Ids and
    /// everything else must not depend on it.
    #[serde(default)]
    pub add_mode: u8,
}

impl GraphSpec {
    pub fn n(&self) -> usize {
        self.fns.len()
    }

    /// The edge calls that are actually attempted, in order: every single-edge
    /// call, and of every batch the pairs up to and including its first rejected
    /// one (decided by the reference model).
    pub fn flat_calls(&self) -> Vec<(usize, usize, Kind)> {
        let mut calls = self.edges.clone();
        for (pairs, k) in &self.batches {
            for &(a, b) in pairs.iter().take(3) {
                calls.push((a, b, *k));
                let acc = user_edges(self.n(), &calls).accepted;
                if !*acc.last().unwrap() {
                    break;
                }
            }
        }
        calls
    }
}

/// Dense bit matrix for reachability.
#[derive(Clone, Debug)]
pub struct BitMat {
    pub n: usize,
    w: usize,
    rows: Vec<u64>,
}

impl BitMat {
    pub fn new(n: usize) -> Self {
        let w = n.div_ceil(64).max(1);
        BitMat {
            n,
            w,
            rows: vec![0; n * w],
        }
    }
    #[inline]
    pub fn get(&self, i: usize, j: usize) -> bool {
        (self.rows[i * self.w + j / 64] >> (j % 64)) & 1 == 1
    }
    #[inline]
    pub fn set(&mut self, i: usize, j: usize) {
        self.rows[i * self.w + j / 64] |= 1 << (j % 64);
    }
    /// In-place transitive closure (irreflexive unless cyclic).
    pub fn close(&mut self) {
        let (n, w) = (self.n, self.w);
        for k in 0..n {
            for i in 0..n {
                if self.get(i, k) {
                    for x in 0..w {
                        let v = self.rows[k * w + x];
                        self.rows[i * w + x] |= v;
                    }
                }
            }
        }
    }
    pub fn from_edges(n: usize, edges: impl Iterator<Item = (usize, usize)>) -> Self {
        let mut m = BitMat::new(n);
        for (a, b) in edges {
            m.set(a, b);
        }
        m
    }
}

/// Result of applying the spec's edge call sequence to a model of the builder:
/// an edge is accepted iff it does not close a cycle with accepted edges (self
/// edges are cycles); one edge per ordered pair, position of first insertion,
/// kind of last call.
#[derive(Clone, Debug, PartialEq, Eq)]
pub struct UserEdges {
    /// Effective edges in first-insertion order.
    pub edges: Vec<(usize, usize, Kind)>,
    /// Per call: accepted?
    pub accepted: Vec<bool>,
}

pub fn user_edges(n: usize, calls: &[(usize, usize, Kind)]) -> UserEdges {
    // same model as ever (accept iff from != to and `to` does not reach `from`; a
    // repeated pair only updates the kind), with an index and adjacency lists so
    // that call sequences of 10^5 edges stay cheap
    let mut edges: Vec<(usize, usize, Kind)> = Vec::new();
    let mut index: std::collections::HashMap<(usize, usize), usize> = std::collections::HashMap::new();
    let mut adj: Vec<Vec<usize>> = vec![vec![]; n];
    let mut accepted = Vec::with_capacity(calls.len());
    let mut seen = vec![0u32; n];
    let mut stamp = 0u32;
    for &(a, b, k) in calls {
        if a == b {
            accepted.push(false);
            continue;
        }
        if let Some(&i) = index.get(&(a, b)) {
            edges[i].2 = k;
            accepted.push(true);
            continue;
        }
        // does b reach a?
        stamp += 1;
        if reaches(&adj, &mut seen, stamp, b, a) {
            accepted.push(false);
        } else {
            index.insert((a, b), edges.len());
            edges.push((a, b, k));
            adj[a].push(b);
            accepted.push(true);
        }
    }
    UserEdges { edges, accepted }
}

fn reaches(adj: &[Vec<usize>], seen: &mut [u32], stamp: u32, from: usize, to: usize) -> bool {
    let mut stack = vec![from];
    seen[from] = stamp;
    while let Some(v) = stack.pop() {
        if v == to {
            return true;
        }
        for &c in &adj[v] {
            if seen[c] != stamp {
                seen[c] = stamp;
                stack.push(c);
            }
        }
    }
    false
}

/// Longest-chain ranks over the given (acyclic) edges.
pub fn ref_ranks(n: usize, edges: &[(usize, usize, Kind)]) -> Vec<usize> {
    let mut indeg = vec![0usize; n];
    let mut out: Vec<Vec<usize>> = vec![vec![]; n];
    for &(a, b, _) in edges {
        indeg[b] += 1;
        out[a].push(b);
    }
    let mut rank = vec![0usize; n];
    let mut queue: Vec<usize> = (0..n).filter(|i| indeg[*i] == 0).collect();
    let mut head = 0;
    while head < queue.len() {
        let v = queue[head];
        head += 1;
        for &c in &out[v] {
            rank[c] = rank[c].max(rank[v] + 1);
            indeg[c] -= 1;
            if indeg[c] == 0 {
                queue.push(c);
            }
        }
    }
    assert_eq!(queue.len(), n, "ref_ranks: edges are cyclic");
    rank
}

/// Number of root-to-node paths, saturating; used to cap generators while the
/// rank computation is exponential in this number.
pub fn root_path_count(n: usize, edges: &[(usize, usize, Kind)]) -> u64 {
    let mut indeg = vec![0usize; n];
    let mut out: Vec<Vec<usize>> = vec![vec![]; n];
    for &(a, b, _) in edges {
        indeg[b] += 1;
        out[a].push(b);
    }
    let mut paths = vec![0u64; n];
    let mut queue: Vec<usize> = (0..n).filter(|i| indeg[*i] == 0).collect();
    for &r in &queue {
        paths[r] = 1;
    }
    let mut head = 0;
    while head < queue.len() {
        let v = queue[head];
        head += 1;
        for &c in &out[v] {
            paths[c] = paths[c].saturating_add(paths[v]);
            indeg[c] -= 1;
            if indeg[c] == 0 {
                queue.push(c);
            }
        }
    }
    paths.iter().fold(0u64, |a, b| a.saturating_add(*b))
}

/// Reference construction of the augmented graph (C12 oracle B): order the
/// functions by (rank, insertion index); going through pairs by increasing
/// span in that order, add `u -> v` iff they conflict and `v` is not yet
/// reachable from `u`.  Returns the Data edges.
pub fn ref_data_edges(spec: &GraphSpec, user: &[(usize, usize, Kind)]) -> Vec<(usize, usize)> {
    let n = spec.n();
    let rank = ref_ranks(n, user);
    let mut ord: Vec<usize> = (0..n).collect();
    ord.sort_by_key(|i| (rank[*i], *i));
    let mut reach = BitMat::from_edges(n, user.iter().map(|e| (e.0, e.1)));
    reach.close();
    let mut data = Vec::new();
    for span in 1..n {
        for p in 0..n - span {
            let (u, v) = (ord[p], ord[p + span]);
            if reach.get(u, v) {
                continue;
            }
            if conflict(&spec.fns[u], &spec.fns[v]) {
                data.push((u, v));
                // incremental closure update: everything reaching u now reaches v and beyond
                let mut add: Vec<usize> = vec![v];
                for x in 0..n {
                    if reach.get(v, x) {
                        add.push(x);
                    }
                }
                for s in 0..n {
                    if s == u || reach.get(s, u) {
                        for &x in &add {
                            reach.set(s, x);
                        }
                    }
                }
            }
        }
    }
    data
}

/// Builds the graph through the public builder API only.  Rejected edges are
/// ignored (builder properties check the results themselves).
pub fn build_graph(spec: &GraphSpec) -> FnGraph<TestFn> {
    let mut b = FnGraphBuilder::new();
    let ids: Vec<FnId> = add_all_fns(&mut b, spec);
    for &(a, c, k) in &spec.edges {
        let _ = match k {
            Kind::Logic => b.add_logic_edge(ids[a], ids[c]),
            Kind::Contains => b.add_contains_edge(ids[a], ids[c]),
            Kind::Data => panic!("specs never contain data edges"),
        };
    }
    apply_batches(&mut b, &ids, &spec.batches);
    let _watched = crate::watch::build_guard(spec);
    b.build()
}

/// Another, small graph value (a -> b, c): the target of `clone_from` copies.
pub fn small_other_graph() -> FnGraph<TestFn> {
    let mut b = FnGraphBuilder::new();
    let x = b.add_fn(TestFn { id: 0, reads: vec![], writes: vec![0] });
    let y = b.add_fn(TestFn { id: 1, reads: vec![0], writes: vec![] });
    let _ = b.add_fn(TestFn { id: 2, reads: vec![], writes: vec![] });
    let _ = b.add_logic_edge(x, y);
    b.build()
}

/// Insert the spec's functions the way `add_mode` says (single or batch calls).
pub fn add_all_fns(b: &mut FnGraphBuilder<TestFn>, spec: &GraphSpec) -> Vec<FnId> {
    let fns = &spec.fns;
    let mut ids: Vec<FnId> = Vec::with_capacity(fns.len());
    let mut i = 0;
    let mut turn = 0usize;
    while i < fns.len() {
        let left = fns.len() - i;
        let take = match spec.add_mode {
            1 => left.min(3),
            2 => {
                turn += 1;
                if turn % 2 == 1 { left.min(2) } else { 0 }
            }
            _ => 0,
        };
        match take {
            3 => ids.extend(b.add_fns([fns[i].clone(), fns[i + 1].clone(), fns[i + 2].clone()])),
            2 => ids.extend(b.add_fns([fns[i].clone(), fns[i + 1].clone()])),
            1 if spec.add_mode == 1 => ids.extend(b.add_fns([fns[i].clone()])),
            _ => ids.push(b.add_fn(fns[i].clone())),
        }
        i += take.max(1);
    }
    ids
}

/// Apply the spec's batch calls through the real batch API; returns per batch
/// whether it was accepted.
pub fn apply_batches(
    b: &mut FnGraphBuilder<TestFn>,
    ids: &[FnId],
    batches: &[(Vec<(usize, usize)>, Kind)],
) -> Vec<bool> {
    fn go<const N: usize>(b: &mut FnGraphBuilder<TestFn>, ids: &[FnId], es: &[(usize, usize)], logic: bool) -> bool {
        let mut arr = [(FnId::default(), FnId::default()); N];
        for (i, e) in es.iter().enumerate().take(N) {
            arr[i] = (ids[e.0], ids[e.1]);
        }
        if logic {
            b.add_logic_edges(arr).is_ok()
        } else {
            b.add_contains_edges(arr).is_ok()
        }
    }
    batches
        .iter()
        .map(|(es, k)| {
            let logic = *k == Kind::Logic;
            match es.len() {
                0 => go::<0>(b, ids, es, logic),
                1 => go::<1>(b, ids, es, logic),
                2 => go::<2>(b, ids, es, logic),
                _ => go::<3>(b, ids, &es[..3], logic),
            }
        })
        .collect()
}

/// Edges of the built graph (public field `graph`).
pub fn built_edges(g: &FnGraph<TestFn>) -> Vec<(usize, usize, Kind)> {
    g.graph
        .raw_edges()
        .iter()
        .map(|e| {
            (
                e.source().index(),
                e.target().index(),
                Kind::from_edge(e.weight),
            )
        })
        .collect()
}

/// Everything the run-time oracles need to know about a graph, all derived by
/// the harness: spec-level facts plus the built graph's edge list.
#[derive(Clone, Debug)]
pub struct GraphFacts {
    pub n: usize,
    /// Effective user edges.
    pub user: Vec<(usize, usize, Kind)>,
    /// Transitive closure of user edges: `anc.get(u, v)` = u is a (transitive)
    /// user-edge ancestor of v.
    pub user_reach: BitMat,
    /// All edges of the built graph.
    pub built: Vec<(usize, usize, Kind)>,
    /// Transitive closure of the built graph.
    pub built_reach: BitMat,
    /// Symmetric conflict matrix.
    pub conflicts: BitMat,
    pub has_unordered_conflict: bool,
    pub has_read_sharing: bool,
    pub n_data_edges: usize,
}

impl GraphFacts {
    pub fn new(spec: &GraphSpec, g: &FnGraph<TestFn>) -> Self {
        let n = spec.n();
        let user = user_edges(n, &spec.flat_calls()).edges;
        let mut user_reach = BitMat::from_edges(n, user.iter().map(|e| (e.0, e.1)));
        user_reach.close();
        let built = built_edges(g);
        let mut built_reach = BitMat::from_edges(n, built.iter().map(|e| (e.0, e.1)));
        built_reach.close();
        let mut conflicts = BitMat::new(n);
        let mut has_unordered_conflict = false;
        let mut has_read_sharing = false;
        for i in 0..n {
            for j in 0..n {
                if i != j && conflict(&spec.fns[i], &spec.fns[j]) {
                    conflicts.set(i, j);
                    if !user_reach.get(i, j) && !user_reach.get(j, i) {
                        has_unordered_conflict = true;
                    }
                }
                if i < j && read_sharing(&spec.fns[i], &spec.fns[j]) {
                    has_read_sharing = true;
                }
            }
        }
        let n_data_edges = built.iter().filter(|e| e.2 == Kind::Data).count();
        GraphFacts {
            n,
            user,
            user_reach,
            built,
            built_reach,
            conflicts,
            has_unordered_conflict,
            has_read_sharing,
            n_data_edges,
        }
    }

    /// Direct predecessors of every node in *run order* in the built graph.
    pub fn pred_built(&self, rev: bool) -> Vec<Vec<usize>> {
        let mut p = vec![vec![]; self.n];
        for &(a, b, _) in &self.built {
            if rev {
                p[a].push(b);
            } else {
                p[b].push(a);
            }
        }
        p
    }

    /// Must `u` have finished before `v` starts according to user edges (run
    /// order)?
    pub fn user_before(&self, u: usize, v: usize, rev: bool) -> bool {
        if rev {
            self.user_reach.get(v, u)
        } else {
            self.user_reach.get(u, v)
        }
    }

    /// Is `v` ordered after `u` in the built graph (run order)?
    pub fn built_after(&self, u: usize, v: usize, rev: bool) -> bool {
        if rev {
            self.built_reach.get(v, u)
        } else {
            self.built_reach.get(u, v)
        }
    }
}
