//! C16: model-based check of the builder's cycle rejection over generated call
//! sequences (single and batch edge calls, both kinds, repeats, reversed pairs,
//! self edges), plus an exhaustive enumerator over small sequences.

use std::panic::{catch_unwind, AssertUnwindSafe};

use fn_graph::{Edge, FnGraphBuilder, FnId};
use serde::{Deserialize, Serialize};
use serde_json::{json, Value};

use crate::driver::{CaseReport, Check};
use crate::model::{built_edges, Kind, TestFn};
use crate::violation::Violation;
use crate::violation::hash_of;
use crate::tape::Tape;

#[derive(Clone, Debug, PartialEq, Eq, Hash, Serialize, Deserialize)]
pub enum Op {
    AddFn,
    /// `add_fns` with arity 0..=3 (a larger number: that many functions, added by
    /// `add_fns` calls of arity 3).
    AddFns(usize),
    Logic(usize, usize),
    Contains(usize, usize),
    /// `add_logic_edges` with arity 0..=3.
    LogicEdges(Vec<(usize, usize)>),
    /// `add_contains_edges` with arity 0..=3.
    ContainsEdges(Vec<(usize, usize)>),
}

#[derive(Clone, Debug, PartialEq, Eq, Hash, Serialize, Deserialize)]
pub struct SeqCase {
    pub ops: Vec<Op>,
}

fn v(kind: &str, msg: String) -> Violation {
    Violation {
        prop: "C16".into(),
        kind: kind.into(),
        msg,
    }
}

/// Reference model: ordered list of (from, to, kind); accept iff from != to and
/// `to` does not reach `from`.
#[derive(Default)]
struct Model {
    n: usize,
    edges: Vec<(usize, usize, Kind)>,
}

impl Model {
    fn reaches(&self, from: usize, to: usize) -> bool {
        let mut seen = vec![false; self.n];
        let mut st = vec![from];
        seen[from] = true;
        while let Some(x) = st.pop() {
            if x == to {
                return true;
            }
            for e in &self.edges {
                if e.0 == x && !seen[e.1] {
                    seen[e.1] = true;
                    st.push(e.1);
                }
            }
        }
        false
    }
    fn add(&mut self, a: usize, b: usize, k: Kind) -> bool {
        if a == b {
            return false;
        }
        if let Some(e) = self.edges.iter_mut().find(|e| e.0 == a && e.1 == b) {
            e.2 = k;
            return true;
        }
        if self.reaches(b, a) {
            return false;
        }
        self.edges.push((a, b, k));
        true
    }
}

pub struct SeqEval {
    pub violations: Vec<Violation>,
    pub rejected: usize,
    pub kind_changes: usize,
    pub n_fns: usize,
    pub edge_calls: usize,
}

fn batch<const N: usize>(
    b: &mut FnGraphBuilder<TestFn>,
    ids: &[FnId],
    es: &[(usize, usize)],
    logic: bool,
) -> bool {
    let mut arr = [(FnId::default(), FnId::default()); N];
    for (i, e) in es.iter().enumerate() {
        arr[i] = (ids[e.0], ids[e.1]);
    }
    if logic {
        b.add_logic_edges(arr).is_ok()
    } else {
        b.add_contains_edges(arr).is_ok()
    }
}

pub fn eval_seq(case: &SeqCase) -> SeqEval {
    let r = catch_unwind(AssertUnwindSafe(|| {
        let mut out = vec![];
        let mut b: FnGraphBuilder<TestFn> = FnGraphBuilder::new();
        let mut ids: Vec<FnId> = vec![];
        let mut m = Model::default();
        let mut rejected = 0;
        let mut kind_changes = 0;
        let mut edge_calls = 0;
        let newfn = |i: usize| TestFn {
            id: i,
            reads: vec![],
            writes: vec![],
        };
        for (opi, op) in case.ops.iter().enumerate() {
            match op {
                Op::AddFn => {
                    let id = b.add_fn(newfn(ids.len()));
                    if id.index() != ids.len() {
                        out.push(v("fn-id", format!("op {opi}: add_fn returned {id:?}")));
                    }
                    ids.push(id);
                    m.n += 1;
                }
                Op::AddFns(k) => {
                    let base = ids.len();
                    // arities above 3 (large node sets) are added in chunks of 3
                    let mut got: Vec<FnId> = vec![];
                    let mut left = *k;
                    loop {
                        let at = base + got.len();
                        let part: Vec<FnId> = match left {
                            0 => b.add_fns::<0>([]).to_vec(),
                            1 => b.add_fns([newfn(at)]).to_vec(),
                            2 => b.add_fns([newfn(at), newfn(at + 1)]).to_vec(),
                            _ => b.add_fns([newfn(at), newfn(at + 1), newfn(at + 2)]).to_vec(),
                        };
                        left -= left.min(3);
                        got.extend(part);
                        if left == 0 {
                            break;
                        }
                    }
                    for (j, id) in got.iter().enumerate() {
                        if id.index() != base + j {
                            out.push(v("fn-id", format!("op {opi}: add_fns returned {got:?}")));
                        }
                    }
                    m.n += got.len();
                    ids.extend(got);
                }
                Op::Logic(a, c) | Op::Contains(a, c) => {
                    edge_calls += 1;
                    let logic = matches!(op, Op::Logic(..));
                    let k = if logic { Kind::Logic } else { Kind::Contains };
                    let before = m.edges.iter().find(|e| e.0 == *a && e.1 == *c).map(|e| e.2);
                    let exp = m.add(*a, *c, k);
                    if exp && before.is_some_and(|bk| bk != k) {
                        kind_changes += 1;
                    }
                    let got = if logic {
                        b.add_logic_edge(ids[*a], ids[*c])
                    } else {
                        b.add_contains_edge(ids[*a], ids[*c])
                    };
                    if !exp {
                        rejected += 1;
                    }
                    match (&got, exp) {
                        (Ok(_), false) => out.push(v(
                            "cycle-accepted",
                            format!("op {opi}: edge {a}->{c} closes a cycle but was accepted"),
                        )),
                        (Err(_), true) => out.push(v(
                            "edge-rejected",
                            format!("op {opi}: edge {a}->{c} closes no cycle but was rejected"),
                        )),
                        _ => {}
                    }
                    if let Err(e) = got {
                        let w: Edge = e.0;
                        if Kind::from_edge(w) != k {
                            out.push(v("would-cycle-weight", format!("op {opi}: WouldCycle carries {w:?}")));
                        }
                    }
                }
                Op::LogicEdges(es) | Op::ContainsEdges(es) => {
                    edge_calls += es.len();
                    let logic = matches!(op, Op::LogicEdges(..));
                    let k = if logic { Kind::Logic } else { Kind::Contains };
                    // model: sequential application, stop at first rejection
                    let mut exp_ok = true;
                    for (a, c) in es {
                        let before = m.edges.iter().find(|e| e.0 == *a && e.1 == *c).map(|e| e.2);
                        if !m.add(*a, *c, k) {
                            exp_ok = false;
                            rejected += 1;
                            break;
                        }
                        if before.is_some_and(|bk| bk != k) {
                            kind_changes += 1;
                        }
                    }
                    let got_ok = match es.len() {
                        0 => batch::<0>(&mut b, &ids, es, logic),
                        1 => batch::<1>(&mut b, &ids, es, logic),
                        2 => batch::<2>(&mut b, &ids, es, logic),
                        _ => batch::<3>(&mut b, &ids, &es[..3], logic),
                    };
                    if got_ok != exp_ok {
                        out.push(v(
                            if got_ok { "cycle-accepted" } else { "edge-rejected" },
                            format!("op {opi}: batch {es:?} returned ok={got_ok}, model ok={exp_ok}"),
                        ));
                    }
                }
            }
        }
        let g = b.build();
        let built = built_edges(&g);
        // one edge per ordered pair
        for (i, e) in built.iter().enumerate() {
            if built[..i].iter().any(|d| d.0 == e.0 && d.1 == e.1) {
                out.push(v("duplicate-edge", format!("two edges {}->{} after build", e.0, e.1)));
            }
        }
        let mut got = built.clone();
        got.sort_by_key(|e| (e.0, e.1));
        let mut exp = m.edges.clone();
        exp.sort_by_key(|e| (e.0, e.1));
        if got != exp {
            out.push(v(
                "edges-differ-from-model",
                format!("built edges {got:?}, model {exp:?}"),
            ));
        }
        if g.graph.node_count() != m.n {
            out.push(v("node-count", format!("{} nodes, model {}", g.graph.node_count(), m.n)));
        }
        SeqEval {
            violations: out,
            rejected,
            kind_changes,
            n_fns: m.n,
            edge_calls,
        }
    }));
    r.unwrap_or_else(|_| SeqEval {
        violations: vec![v("panic", "builder call sequence panicked".into())],
        rejected: 0,
        kind_changes: 0,
        n_fns: 0,
        edge_calls: 0,
    })
}

pub fn decode_seq(t: &mut Tape, max_fns: usize, max_ops: usize) -> SeqCase {
    let mut ops = vec![];
    let mut n = 0usize;
    // half of the sequences stay on a very small node set (dense repeats / cycles),
    // the others may use up to `max_fns` functions
    let max_fns = if t.chance(1, 2) { max_fns.min(6) } else { max_fns };
    let len = t.below(max_ops + 1);
    // one sequence in sixteen works on a large node set (65..=140 functions added
    // up front) with the edge calls concentrated on a few "hot" functions, so that
    // repeats, reversed pairs and cycle attempts stay as frequent as on small sets
    let large = t.chance(1, 16);
    let mut hot = 0usize;
    if large {
        t.enable_tail();
        let k = if t.chance(1, 10) { 257 + t.below(44) } else { 65 + t.below(76) };
        ops.push(Op::AddFns(k));
        n = k;
        hot = 3 + t.below(6);
        if t.chance(1, 2) {
            // a hub: the first hot function gets an edge to the second one and then
            // 17..=40 further successors, so that later repeats / reversals of the
            // early edge meet long adjacency lists
            let h1 = n / hot;
            let early = t.chance(1, 2);
            if early {
                ops.push(if t.chance(1, 2) { Op::Logic(0, h1) } else { Op::Contains(0, h1) });
            }
            let fan = if t.chance(1, 2) { 17 + t.below(24) } else { 33 + t.below(16) };
            if t.chance(1, 2) {
                // the second hot function is a hub too: 33..=48 predecessors
                let fan_in = 33 + t.below(16);
                for j in 0..fan_in {
                    let p = n - 1 - j;
                    if p != h1 && p != 0 {
                        ops.push(if t.chance(1, 2) { Op::Logic(p, h1) } else { Op::Contains(p, h1) });
                    }
                }
            }
            let mut x = 1usize;
            while x <= fan {
                if t.chance(1, 3) && x + 2 <= fan {
                    let pairs = vec![(0, x), (0, x + 1), (0, x + 2)];
                    ops.push(if t.chance(1, 2) { Op::LogicEdges(pairs) } else { Op::ContainsEdges(pairs) });
                    x += 3;
                } else {
                    ops.push(if t.chance(1, 2) { Op::Logic(0, x) } else { Op::Contains(0, x) });
                    x += 1;
                }
            }
            if !early {
                // the hub-to-hub pair is given only now, when both lists are long, and
                // often again right away with the other kind
                ops.push(Op::Logic(0, h1));
                if t.chance(2, 3) {
                    ops.push(Op::Contains(0, h1));
                }
            }
        }
    }
    let max_fns = if large { n } else { max_fns };
    // one sequence in forty is long: 16..=40 functions up front and 300..=800 edge
    // calls, so that a builder answers hundreds of cycle queries (rejected ones
    // included) while acceptable pairs are still left
    let long = !large && t.chance(1, 40);
    let (len, max_fns) = if long {
        t.enable_tail();
        let k = 16 + t.below(25);
        ops.push(Op::AddFns(k));
        n = k;
        (300 + t.below(501), k)
    } else {
        (len, max_fns)
    };
    for _ in 0..len {
        let c = t.below(20);
        let want_fn = n == 0 || (n < max_fns && c < 3);
        if want_fn {
            if c % 2 == 0 || n + 3 > max_fns {
                ops.push(Op::AddFn);
                n += 1;
            } else {
                let k = t.below(4);
                ops.push(Op::AddFns(k));
                n += k;
            }
            continue;
        }
        if n == 0 {
            continue;
        }
        let pick = |t: &mut Tape| {
            if hot > 0 && !t.chance(1, 8) {
                // hot functions are spread over the id range
                t.below(hot) * (n / hot)
            } else {
                t.below(n)
            }
        };
        let pair = |t: &mut Tape| (pick(t), pick(t));
        match c {
            3..=9 => {
                let (a, b) = pair(t);
                ops.push(Op::Logic(a, b));
            }
            10..=15 => {
                let (a, b) = pair(t);
                ops.push(Op::Contains(a, b));
            }
            16 | 17 => {
                let k = t.below(4);
                ops.push(Op::LogicEdges((0..k).map(|_| pair(t)).collect()));
            }
            _ => {
                let k = t.below(4);
                ops.push(Op::ContainsEdges((0..k).map(|_| pair(t)).collect()));
            }
        }
    }
    SeqCase { ops }
}

pub struct SeqCheck {
    pub max_fns: usize,
    pub max_ops: usize,
}

pub const SEQ_RULE: &str = "non-trivial: >= 1 rejected edge or a repeated pair whose kind changed; distinct by hash of the decoded call sequence";

impl Check for SeqCheck {
    fn name(&self) -> String {
        "seq:C16".into()
    }
    fn tape_lens(&self) -> Vec<usize> {
        vec![self.max_ops * 8 + 140]
    }
    fn run_case(&self, tapes: &[Vec<u16>], want_decoded: bool) -> CaseReport {
        let mut t = Tape::new(&tapes[0]);
        let case = decode_seq(&mut t, self.max_fns, self.max_ops);
        let ev = eval_seq(&case);
        let mut labels = vec![
            format!("fns:{}", match ev.n_fns { 0 => "0", 1..=3 => "1..3", 4..=64 => "4..64", _ => "65+" }),
            format!("edge_calls:{}", match ev.edge_calls { 0 => "0", 1..=5 => "1..5", 6..=15 => "6..15", 16..=255 => "16..255", _ => "256+" }),
        ];
        if ev.rejected > 0 {
            labels.push("has_rejected_edge".into());
        }
        if ev.kind_changes > 0 {
            labels.push("has_kind_change".into());
        }
        if case.ops.iter().any(|o| matches!(o, Op::LogicEdges(_) | Op::ContainsEdges(_))) {
            labels.push("has_batch_call".into());
        }
        CaseReport {
            nontrivial: ev.rejected > 0 || ev.kind_changes > 0,
            hash: hash_of(&case),
            labels,
            decoded: if want_decoded { Some(json!({"kind": "seq", "case": case})) } else { None },
            violations: ev.violations,
            executions: 1,
        }
    }
}

pub struct SeqExhaustive {
    pub sequences: u64,
    pub nontrivial: u64,
    pub violation: Option<(Violation, SeqCase)>,
    pub description: String,
    pub samples: Vec<Value>,
}

/// All sequences of up to `max_calls` single-edge calls over `fns` functions
/// (every ordered pair incl. self edges x both kinds).
pub fn exhaustive_seq(fns: usize, max_calls: usize, workers: usize) -> SeqExhaustive {
    use std::sync::atomic::{AtomicBool, AtomicU64, Ordering};
    use std::sync::Mutex;
    let mut alphabet: Vec<Op> = vec![];
    for a in 0..fns {
        for b in 0..fns {
            alphabet.push(Op::Logic(a, b));
            alphabet.push(Op::Contains(a, b));
        }
    }
    let k = alphabet.len() as u64;
    let seqs = AtomicU64::new(0);
    let nontriv = AtomicU64::new(0);
    let stop = AtomicBool::new(false);
    let found: Mutex<Option<(Violation, SeqCase)>> = Mutex::new(None);
    let samples: Mutex<Vec<Value>> = Mutex::new(vec![]);
    let mut total = 0u64;
    for len in 0..=max_calls {
        total += k.pow(len as u32);
    }
    let per = total.div_ceil(workers as u64);
    std::thread::scope(|sc| {
        for w in 0..workers as u64 {
            let (alphabet, seqs, nontriv, stop, found, samples) =
                (&alphabet, &seqs, &nontriv, &stop, &found, &samples);
            sc.spawn(move || {
                let lo = w * per;
                let hi = ((w + 1) * per).min(total);
                for idx in lo..hi {
                    if stop.load(Ordering::Relaxed) {
                        return;
                    }
                    // decode idx -> (len, digits)
                    let mut rem = idx;
                    let mut len = 0usize;
                    loop {
                        let c = k.pow(len as u32);
                        if rem < c {
                            break;
                        }
                        rem -= c;
                        len += 1;
                    }
                    let mut ops: Vec<Op> = (0..fns).map(|_| Op::AddFn).collect();
                    for _ in 0..len {
                        ops.push(alphabet[(rem % k) as usize].clone());
                        rem /= k;
                    }
                    let case = SeqCase { ops };
                    let ev = eval_seq(&case);
                    let c = seqs.fetch_add(1, Ordering::Relaxed);
                    if ev.rejected > 0 || ev.kind_changes > 0 {
                        nontriv.fetch_add(1, Ordering::Relaxed);
                    }
                    if matches!(c, 30 | 3000 | 300_000) {
                        samples.lock().unwrap().push(json!({"kind":"seq","case":case}));
                    }
                    if let Some(x) = ev.violations.first() {
                        stop.store(true, Ordering::Relaxed);
                        let mut g = found.lock().unwrap();
                        if g.is_none() {
                            *g = Some((x.clone(), case));
                        }
                        return;
                    }
                }
            });
        }
    });
    SeqExhaustive {
        sequences: seqs.into_inner(),
        nontrivial: nontriv.into_inner(),
        violation: found.into_inner().unwrap(),
        description: format!(
            "all {total} sequences of <= {max_calls} single-edge calls over {fns} functions (every ordered pair incl. self edges x {{logic, contains}})"
        ),
        samples: samples.into_inner().unwrap(),
    }
}
