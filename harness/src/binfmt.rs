//! A small compact serde format of the harness's own: not self-describing, not
//! human-readable (`is_human_readable() == false`), in the style of bincode /
//! postcard (no such crate is available offline).  Fixed-width little-endian
//! integers, length-prefixed strings / sequences / maps, enum variants by index,
//! struct fields in declaration order.  Used as one more serialisation route of
//! the C17 check: types whose `Serialize` / `Deserialize` differ between
//! human-readable and compact formats are only exercised by a route like this.

use serde::de::{self, DeserializeSeed, EnumAccess, IntoDeserializer, MapAccess, SeqAccess, VariantAccess, Visitor};
use serde::ser::{self, Serialize};
use std::fmt;

#[derive(Debug)]
pub struct Error(pub String);

impl fmt::Display for Error {
    fn fmt(&self, f: &mut fmt::Formatter) -> fmt::Result {
        f.write_str(&self.0)
    }
}
impl std::error::Error for Error {}
impl ser::Error for Error {
    fn custom<T: fmt::Display>(msg: T) -> Self {
        Error(msg.to_string())
    }
}
impl de::Error for Error {
    fn custom<T: fmt::Display>(msg: T) -> Self {
        Error(msg.to_string())
    }
}

pub fn to_bytes<T: Serialize + ?Sized>(v: &T) -> Result<Vec<u8>, Error> {
    let mut s = Ser { out: Vec::new() };
    v.serialize(&mut s)?;
    Ok(s.out)
}

pub fn from_bytes<'a, T: de::Deserialize<'a>>(b: &'a [u8]) -> Result<T, Error> {
    let mut d = De { inp: b };
    let v = T::deserialize(&mut d)?;
    if !d.inp.is_empty() {
        return Err(Error(format!("{} trailing bytes", d.inp.len())));
    }
    Ok(v)
}

pub struct Ser {
    out: Vec<u8>,
}

macro_rules! ser_num {
    ($($f:ident $t:ty),*) => { $(fn $f(self, v: $t) -> Result<(), Error> { self.out.extend_from_slice(&v.to_le_bytes()); Ok(()) })* };
}

impl<'a> ser::Serializer for &'a mut Ser {
    type Ok = ();
    type Error = Error;
    type SerializeSeq = Self;
    type SerializeTuple = Self;
    type SerializeTupleStruct = Self;
    type SerializeTupleVariant = Self;
    type SerializeMap = Self;
    type SerializeStruct = Self;
    type SerializeStructVariant = Self;

    fn is_human_readable(&self) -> bool {
        false
    }
    fn serialize_bool(self, v: bool) -> Result<(), Error> {
        self.out.push(v as u8);
        Ok(())
    }
    ser_num!(serialize_i8 i8, serialize_i16 i16, serialize_i32 i32, serialize_i64 i64, serialize_i128 i128, serialize_u8 u8, serialize_u16 u16, serialize_u32 u32, serialize_u64 u64, serialize_u128 u128, serialize_f32 f32, serialize_f64 f64);
    fn serialize_char(self, v: char) -> Result<(), Error> {
        self.serialize_u32(v as u32)
    }
    fn serialize_str(self, v: &str) -> Result<(), Error> {
        self.serialize_bytes(v.as_bytes())
    }
    fn serialize_bytes(self, v: &[u8]) -> Result<(), Error> {
        self.out.extend_from_slice(&(v.len() as u64).to_le_bytes());
        self.out.extend_from_slice(v);
        Ok(())
    }
    fn serialize_none(self) -> Result<(), Error> {
        self.out.push(0);
        Ok(())
    }
    fn serialize_some<T: ?Sized + Serialize>(self, v: &T) -> Result<(), Error> {
        self.out.push(1);
        v.serialize(self)
    }
    fn serialize_unit(self) -> Result<(), Error> {
        Ok(())
    }
    fn serialize_unit_struct(self, _: &'static str) -> Result<(), Error> {
        Ok(())
    }
    fn serialize_unit_variant(self, _: &'static str, idx: u32, _: &'static str) -> Result<(), Error> {
        self.serialize_u32(idx)
    }
    fn serialize_newtype_struct<T: ?Sized + Serialize>(self, _: &'static str, v: &T) -> Result<(), Error> {
        v.serialize(self)
    }
    fn serialize_newtype_variant<T: ?Sized + Serialize>(self, _: &'static str, idx: u32, _: &'static str, v: &T) -> Result<(), Error> {
        self.out.extend_from_slice(&idx.to_le_bytes());
        v.serialize(self)
    }
    fn serialize_seq(self, len: Option<usize>) -> Result<Self, Error> {
        let len = len.ok_or_else(|| Error("sequence of unknown length".into()))?;
        self.out.extend_from_slice(&(len as u64).to_le_bytes());
        Ok(self)
    }
    fn serialize_tuple(self, _: usize) -> Result<Self, Error> {
        Ok(self)
    }
    fn serialize_tuple_struct(self, _: &'static str, _: usize) -> Result<Self, Error> {
        Ok(self)
    }
    fn serialize_tuple_variant(self, _: &'static str, idx: u32, _: &'static str, _: usize) -> Result<Self, Error> {
        self.out.extend_from_slice(&idx.to_le_bytes());
        Ok(self)
    }
    fn serialize_map(self, len: Option<usize>) -> Result<Self, Error> {
        let len = len.ok_or_else(|| Error("map of unknown length".into()))?;
        self.out.extend_from_slice(&(len as u64).to_le_bytes());
        Ok(self)
    }
    fn serialize_struct(self, _: &'static str, _: usize) -> Result<Self, Error> {
        Ok(self)
    }
    fn serialize_struct_variant(self, _: &'static str, idx: u32, _: &'static str, _: usize) -> Result<Self, Error> {
        self.out.extend_from_slice(&idx.to_le_bytes());
        Ok(self)
    }
}

macro_rules! ser_compound {
    ($tr:ident, $f:ident) => {
        impl<'a> ser::$tr for &'a mut Ser {
            type Ok = ();
            type Error = Error;
            fn $f<T: ?Sized + Serialize>(&mut self, v: &T) -> Result<(), Error> {
                v.serialize(&mut **self)
            }
            fn end(self) -> Result<(), Error> {
                Ok(())
            }
        }
    };
}
ser_compound!(SerializeSeq, serialize_element);
ser_compound!(SerializeTuple, serialize_element);
ser_compound!(SerializeTupleStruct, serialize_field);
ser_compound!(SerializeTupleVariant, serialize_field);

impl<'a> ser::SerializeMap for &'a mut Ser {
    type Ok = ();
    type Error = Error;
    fn serialize_key<T: ?Sized + Serialize>(&mut self, k: &T) -> Result<(), Error> {
        k.serialize(&mut **self)
    }
    fn serialize_value<T: ?Sized + Serialize>(&mut self, v: &T) -> Result<(), Error> {
        v.serialize(&mut **self)
    }
    fn end(self) -> Result<(), Error> {
        Ok(())
    }
}
impl<'a> ser::SerializeStruct for &'a mut Ser {
    type Ok = ();
    type Error = Error;
    fn serialize_field<T: ?Sized + Serialize>(&mut self, _: &'static str, v: &T) -> Result<(), Error> {
        v.serialize(&mut **self)
    }
    fn end(self) -> Result<(), Error> {
        Ok(())
    }
}
impl<'a> ser::SerializeStructVariant for &'a mut Ser {
    type Ok = ();
    type Error = Error;
    fn serialize_field<T: ?Sized + Serialize>(&mut self, _: &'static str, v: &T) -> Result<(), Error> {
        v.serialize(&mut **self)
    }
    fn end(self) -> Result<(), Error> {
        Ok(())
    }
}

pub struct De<'de> {
    inp: &'de [u8],
}

impl<'de> De<'de> {
    fn take(&mut self, n: usize) -> Result<&'de [u8], Error> {
        if self.inp.len() < n {
            return Err(Error("unexpected end of input".into()));
        }
        let (a, b) = self.inp.split_at(n);
        self.inp = b;
        Ok(a)
    }
    fn len(&mut self) -> Result<usize, Error> {
        let b = self.take(8)?;
        let n = u64::from_le_bytes(b.try_into().unwrap());
        if n as usize > self.inp.len() + 1 && n > (1 << 32) {
            return Err(Error("implausible length".into()));
        }
        Ok(n as usize)
    }
}

macro_rules! de_num {
    ($($f:ident $v:ident $t:ty),*) => { $(fn $f<V: Visitor<'de>>(self, vis: V) -> Result<V::Value, Error> {
        let b = self.take(std::mem::size_of::<$t>())?;
        vis.$v(<$t>::from_le_bytes(b.try_into().unwrap()))
    })* };
}

impl<'de, 'a> de::Deserializer<'de> for &'a mut De<'de> {
    type Error = Error;
    fn is_human_readable(&self) -> bool {
        false
    }
    fn deserialize_any<V: Visitor<'de>>(self, _: V) -> Result<V::Value, Error> {
        Err(Error("the compact format is not self-describing (deserialize_any)".into()))
    }
    fn deserialize_bool<V: Visitor<'de>>(self, vis: V) -> Result<V::Value, Error> {
        match self.take(1)?[0] {
            0 => vis.visit_bool(false),
            1 => vis.visit_bool(true),
            x => Err(Error(format!("invalid bool {x}"))),
        }
    }
    de_num!(deserialize_i8 visit_i8 i8, deserialize_i16 visit_i16 i16, deserialize_i32 visit_i32 i32, deserialize_i64 visit_i64 i64, deserialize_i128 visit_i128 i128, deserialize_u8 visit_u8 u8, deserialize_u16 visit_u16 u16, deserialize_u32 visit_u32 u32, deserialize_u64 visit_u64 u64, deserialize_u128 visit_u128 u128, deserialize_f32 visit_f32 f32, deserialize_f64 visit_f64 f64);
    fn deserialize_char<V: Visitor<'de>>(self, vis: V) -> Result<V::Value, Error> {
        let b = self.take(4)?;
        let c = char::from_u32(u32::from_le_bytes(b.try_into().unwrap())).ok_or_else(|| Error("invalid char".into()))?;
        vis.visit_char(c)
    }
    fn deserialize_str<V: Visitor<'de>>(self, vis: V) -> Result<V::Value, Error> {
        let n = self.len()?;
        let b = self.take(n)?;
        vis.visit_borrowed_str(std::str::from_utf8(b).map_err(|e| Error(e.to_string()))?)
    }
    fn deserialize_string<V: Visitor<'de>>(self, vis: V) -> Result<V::Value, Error> {
        self.deserialize_str(vis)
    }
    fn deserialize_bytes<V: Visitor<'de>>(self, vis: V) -> Result<V::Value, Error> {
        let n = self.len()?;
        vis.visit_borrowed_bytes(self.take(n)?)
    }
    fn deserialize_byte_buf<V: Visitor<'de>>(self, vis: V) -> Result<V::Value, Error> {
        self.deserialize_bytes(vis)
    }
    fn deserialize_option<V: Visitor<'de>>(self, vis: V) -> Result<V::Value, Error> {
        match self.take(1)?[0] {
            0 => vis.visit_none(),
            1 => vis.visit_some(self),
            x => Err(Error(format!("invalid option tag {x}"))),
        }
    }
    fn deserialize_unit<V: Visitor<'de>>(self, vis: V) -> Result<V::Value, Error> {
        vis.visit_unit()
    }
    fn deserialize_unit_struct<V: Visitor<'de>>(self, _: &'static str, vis: V) -> Result<V::Value, Error> {
        vis.visit_unit()
    }
    fn deserialize_newtype_struct<V: Visitor<'de>>(self, _: &'static str, vis: V) -> Result<V::Value, Error> {
        vis.visit_newtype_struct(self)
    }
    fn deserialize_seq<V: Visitor<'de>>(self, vis: V) -> Result<V::Value, Error> {
        let n = self.len()?;
        vis.visit_seq(Counted { de: self, left: n })
    }
    fn deserialize_tuple<V: Visitor<'de>>(self, len: usize, vis: V) -> Result<V::Value, Error> {
        vis.visit_seq(Counted { de: self, left: len })
    }
    fn deserialize_tuple_struct<V: Visitor<'de>>(self, _: &'static str, len: usize, vis: V) -> Result<V::Value, Error> {
        vis.visit_seq(Counted { de: self, left: len })
    }
    fn deserialize_map<V: Visitor<'de>>(self, vis: V) -> Result<V::Value, Error> {
        let n = self.len()?;
        vis.visit_map(Counted { de: self, left: n })
    }
    fn deserialize_struct<V: Visitor<'de>>(self, _: &'static str, fields: &'static [&'static str], vis: V) -> Result<V::Value, Error> {
        vis.visit_seq(Counted { de: self, left: fields.len() })
    }
    fn deserialize_enum<V: Visitor<'de>>(self, _: &'static str, _: &'static [&'static str], vis: V) -> Result<V::Value, Error> {
        vis.visit_enum(self)
    }
    fn deserialize_identifier<V: Visitor<'de>>(self, _: V) -> Result<V::Value, Error> {
        Err(Error("the compact format has no identifiers".into()))
    }
    fn deserialize_ignored_any<V: Visitor<'de>>(self, _: V) -> Result<V::Value, Error> {
        Err(Error("the compact format cannot skip values".into()))
    }
}

struct Counted<'a, 'de> {
    de: &'a mut De<'de>,
    left: usize,
}

impl<'de, 'a> SeqAccess<'de> for Counted<'a, 'de> {
    type Error = Error;
    fn next_element_seed<T: DeserializeSeed<'de>>(&mut self, seed: T) -> Result<Option<T::Value>, Error> {
        if self.left == 0 {
            return Ok(None);
        }
        self.left -= 1;
        seed.deserialize(&mut *self.de).map(Some)
    }
    fn size_hint(&self) -> Option<usize> {
        Some(self.left.min(1 << 16))
    }
}

impl<'de, 'a> MapAccess<'de> for Counted<'a, 'de> {
    type Error = Error;
    fn next_key_seed<K: DeserializeSeed<'de>>(&mut self, seed: K) -> Result<Option<K::Value>, Error> {
        if self.left == 0 {
            return Ok(None);
        }
        self.left -= 1;
        seed.deserialize(&mut *self.de).map(Some)
    }
    fn next_value_seed<V: DeserializeSeed<'de>>(&mut self, seed: V) -> Result<V::Value, Error> {
        seed.deserialize(&mut *self.de)
    }
}

impl<'de, 'a> EnumAccess<'de> for &'a mut De<'de> {
    type Error = Error;
    type Variant = Self;
    fn variant_seed<V: DeserializeSeed<'de>>(self, seed: V) -> Result<(V::Value, Self), Error> {
        let b = self.take(4)?;
        let idx = u32::from_le_bytes(b.try_into().unwrap());
        let v = seed.deserialize(IntoDeserializer::<Error>::into_deserializer(idx))?;
        Ok((v, self))
    }
}

impl<'de, 'a> VariantAccess<'de> for &'a mut De<'de> {
    type Error = Error;
    fn unit_variant(self) -> Result<(), Error> {
        Ok(())
    }
    fn newtype_variant_seed<T: DeserializeSeed<'de>>(self, seed: T) -> Result<T::Value, Error> {
        seed.deserialize(self)
    }
    fn tuple_variant<V: Visitor<'de>>(self, len: usize, vis: V) -> Result<V::Value, Error> {
        de::Deserializer::deserialize_tuple(self, len, vis)
    }
    fn struct_variant<V: Visitor<'de>>(self, fields: &'static [&'static str], vis: V) -> Result<V::Value, Error> {
        de::Deserializer::deserialize_tuple(self, fields.len(), vis)
    }
}
