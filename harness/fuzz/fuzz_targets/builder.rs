#![no_main]
//! libFuzzer target: builder call sequences (build cases and C16 sequences).
use libfuzzer_sys::fuzz_target;

fuzz_target!(|data: &[u8]| {
    fgverif::fuzzing::one_input("builder", data);
});
