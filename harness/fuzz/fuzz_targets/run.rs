#![no_main]
//! libFuzzer target: one fold / for_each style call under the controlled
//! executor.  The semantic oracles are inside the target; only the property
//! named by FG_PROP is fatal.
use libfuzzer_sys::fuzz_target;

fuzz_target!(|data: &[u8]| {
    fgverif::fuzzing::one_input("run", data);
});
