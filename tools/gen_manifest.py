#!/usr/bin/env python3
"""Regenerates /verif/MANIFEST.json (kept valid at all times)."""
import json, subprocess, os
V = os.path.dirname(os.path.dirname(os.path.abspath(__file__)))
hook = subprocess.check_output(["git", "-C", "/repo", "log", "--format=%H", "--grep=verif_hooks feature", "-n", "1"], text=True).strip()

RUN = "every schedule of every option combination on all graphs with n <= 2 (quick) / n <= 3 (thorough) functions enumerated exhaustively, deterministic sweeps across size / count thresholds (graphs beyond 1024 functions, every number of FnRef drops between two polls on wide joins, limited calls on two-broom graphs whose waiting functions come from generations far apart, a size ladder that runs generated cases on every exact number of functions from 41 to 330 (thorough: 600) in every run; DESIGN 2.8a; the exhaustive tier has an exploration budget, DESIGN 2.8b), plus generated graph x option x schedule cases (proptest, tapes of u16 with shrinking; sizes to 320 functions incl. power-of-two boundaries; user futures that complete at once / wake themselves; one run in five inside tokio task polls with a generated cooperative-budget position; a fresh waker per poll; one case in 32 on a fresh thread after another run) under a single-threaded controlled executor / stream consumer that owns the schedule, on three builds of the harness (default features, interruptible, no debug assertions); "
TB = "trusted base: the harness's own model (conflict relation, closures, reference algorithms), its controlled executor (gates + counting waker), proptest, rustc; schedules at poll granularity"
P = {
 "C01": ("exploration", RUN + "oracle: trace invariant 'no two functions with conflicting declared access in flight together', relation computed from the generated access sets only", "§3 C01"),
 "C02": ("exploration", RUN + "oracle: at every hand-out all transitive user-edge predecessors (successors in reverse) have returned", "§3 C02"),
 "C03": ("exploration", RUN + "oracle: no id handed out twice; a clean run hands out every function exactly once (incl. wide graphs with > 64 functions ready at once)", "§3 C03"),
 "C04": ("exploration", RUN + "oracle: exact deadlock verdict (pending, no wake-up signalled, nothing left that could signal one), panic (catch_unwind), livelock guard, no user future in flight at return; n = 0 and futures dropped midway included", "§3 C04"),
 "C05": ("exploration", "generated consumer behaviours (poll_next / FnRef drops in any number and order / interrupt / early drop of the stream) on generated graphs; oracle: state predicate after every action 'pending => wake-up signalled or no unyielded function has all predecessors dropped', end-of-stream exactness, no panic", "§3 C05"),
 "C06": ("exploration", RUN + "oracle: at every quiet point every function whose built-graph predecessors returned was started (no limit/interrupt/failure), plus structural half: every non-user edge is Data and joins a conflicting pair", "§3 C06"),
 "C07": ("fault_enumeration", "fault injection: generated non-empty failing subsets x graphs x schedules on the six try/control concurrent paths and both try_fold paths; oracle: result vs trace (exactly one error per failed function, no function ordered after a failed one started after the failure or already run before it, in-flight work finished, first error for try_fold); size ladder over every exact graph size 41..330", "§3 C07"),
 "C08": ("fault_enumeration", "the interrupt signal is injected at every generated schedule point (before the call, between items, while in flight, at the limit, after the last start) x strategy x n x include flag x API; oracle: bound on starts after the signal, nothing started is lost, differential no-op for NonInterruptible/IgnoreInterruptions", "§3 C08"),
 "C09": ("exploration", RUN + "oracle: returned StreamOutcome (processed order, not-processed list, state, Continue/Break) against the trace of the same run", "§3 C09"),
 "C10": ("exploration", RUN + "oracle: max in flight <= limit (1 for folds), and any limit >= 1 still completes every clean run", "§3 C10"),
 "C11": ("exploration", "exhaustive small DAGs x access declarations + big builds (> 2^16 pair look-ups, 1100-deep chain, sparse DAGs of 1030+ / 2050+ functions) + build histories (K builds in between, K around 2^8 and 2^16) + random builder call sequences to 300 functions (functions inserted by add_fn or by the batch form add_fns) + a size ladder over every exact number of functions 33..340 (thorough: 700), on three builds (default, without the async feature, without debug assertions); oracle: validity predicate of the built graph (total, acyclic, functions and user edges kept, extra edges only Data between conflicting functions, every conflicting pair ordered)", "§3 C11"),
 "C12": ("exploration", "exhaustive small DAGs x declarations + random to 300 functions + size ladder (every exact size 33..340), on three builds (default, without async, without debug assertions); oracles: direction rule and non-redundancy, differential against a span-ordered reference construction, == iff effective call sequences equal (metamorphic mutations)", "§3 C12"),
 "C13": ("exploration", "exhaustive DAGs (n <= 4 quick, n <= 5 thorough) + big builds + build histories + random to 300 functions + size ladder (every exact size 33..340), all insertion orders, three builds; oracle: own longest-path DP", "§3 C13"),
 "C14": ("exploration", "exhaustive small DAGs x declarations + random (sequences of walks on one graph value incl. abandoned, interleaved and panicking ones) + size ladder (every exact size 33..340), three builds; also on clone() and clone_from copies of the built graph; oracle: permutation + every built edge respected for all sequential walkers, insertion order for iter_insertion*, failing position for try_fold/try_for_each", "§3 C14"),
 "C15": ("exploration", "generated histories (1-3 earlier runs: completed, failed, interrupted, future/stream dropped midway, FnRefs and stream values kept alive into later runs, sequential walks) then a last run; long histories (256-319 repetitions, thorough 65600); size ladder (every exact graph size 25..270); oracle: differential, reused graph vs freshly built graph, identical trace and result", "§3 C15"),
 "C16": ("exploration", "model-based: generated builder call sequences (single and batch edge calls, both kinds, repeats, reversed pairs, self edges; to 12 functions, long ones of 300-800 calls, large node sets with hubs) + exhaustive over 3 functions, three builds; oracle: reachability model after every call and edge set after build", "§3 C16"),
 "C17": ("exploration", "exhaustive small DAGs x declarations + iteration-work families (CPU-time budget) + random (node type with a data-carrying enum, 128-bit integers; abandoned and lock-step walks) + size ladder (every exact size 33..340), three builds; oracle: GraphInfo mirrors nodes/edges incl. Data, round trips (== and structural) through JSON text / value tree / reader, YAML and a compact not-human-readable binary serde format of the harness's own, iter / iter_rev topological also on the deserialised value", "§3 C17"),
 "C18": ("exploration", "generated path-explosive families (complete, layered, diamond chains, disjoint parts, forest-by-count, data-edge re-convergence, reader + ladder, rejected back edge; increasing size, stop at first violation; thread-CPU-time budget; a build() that has used 60 s of CPU without returning is reported at once by the build watchdog, DESIGN 2.8b) + random; oracle: RankCalc visit counter (hook) <= n^2+n and data-access queries <= 4n^2+4n", "§3 C18"),
 "C19": ("exploration", "generated caller programs from a grammar (API x function type incl. a borrowing one x future style incl. borrowing and combinator futures x error type x use incl. nested Send async blocks and a FnRef kept alive across an await in a Send future x feature set) decided by the type checker (cargo check), negative controls must be rejected; thorough: whole grammar + execution of the thread-moving programs", "§3 C19"),
 "C20": ("exploration", "generated pairs/triples (rarely 9-12) of simultaneous runs on one &FnGraph with an interleaved schedule (separate tasks incl. a poll of one run inside a poll of another, or one task / one tokio task), long overlaps (K = 2^8, 2^16 other runs during one run; on graphs of 1030+ functions six other runs that must each finish while run A is suspended after its first poll), size ladder (every exact graph size 25..270); oracle: non-interference differential (each run replayed alone with its projected actions gives the identical trace and result) + per-run oracles", "§3 C20"),
}
TECH = {
 "C01": "property-based testing (proptest) over graphs x options x schedules with a controlled executor; trace-invariant oracle",
 "C02": "property-based testing (proptest) over graphs x options x schedules with a controlled executor; dependency-closure oracle",
 "C03": "property-based testing (proptest) incl. wide graphs; exactly-once oracle",
 "C04": "property-based testing (proptest) with exact deadlock/lost-wake-up verdicts from a counting waker",
 "C05": "property-based testing (proptest) over stream consumer behaviours; state-predicate oracle after every action",
 "C06": "property-based testing (proptest); quiet-point predicate + structural edge oracle",
 "C07": "property-based fault injection (generated failing subsets) with result-vs-trace oracle",
 "C08": "property-based fault injection (interrupt signal at generated schedule points) with bound + differential oracles",
 "C09": "property-based testing (proptest); returned-outcome-vs-trace oracle",
 "C10": "property-based testing (proptest); max-in-flight oracle",
 "C11": "exhaustive small-scope enumeration + property-based testing of the builder; validity-predicate oracle",
 "C12": "exhaustive small-scope enumeration + property-based testing; reference-construction differential and metamorphic equality",
 "C13": "exhaustive small-scope enumeration + property-based testing; reference longest-path oracle",
 "C14": "exhaustive small-scope enumeration + property-based testing; topological-order oracle",
 "C15": "stateful property-based testing over run histories; fresh-graph differential",
 "C16": "model-based (stateful) property-based testing of builder call sequences + exhaustive short sequences",
 "C17": "exhaustive small-scope enumeration + property-based testing; mirror + serde round-trip oracle",
 "C18": "generated graph families + property-based testing with an instrumented work counter",
 "C19": "grammar-based program generation with the compiler as oracle (plus negative controls and execution)",
 "C20": "property-based testing over interleavings of simultaneous runs; non-interference differential",
}
checks = []
for pid in sorted(P):
    cat, text, ref = P[pid]
    checks.append({
        "property_id": pid,
        "quick_cmd": "./check %s quick" % pid,
        "thorough_cmd": "./check %s thorough" % pid,
        "evidence_file": "/verif/evidence/%s.json" % pid,
        "replay_cmd_template": "./check replay %s {path}" % pid if pid != "C19" else "cat {path}  # the failing program source with the compiler's message",
        "engine": "fgverif" if pid != "C19" else "c19",
        "level_claimed": {"category": cat, "text": text + ". Held on all generated / enumerated cases; never an absence claim beyond the explored space.", "design_ref": "DESIGN.md " + ref},
        "level_note": TB if pid != "C19" else "trusted base: rustc's auto-trait checking, the program grammar; auto traits are structural so the finite grammar stands for every F: Send + Sync",
        "technique": TECH[pid],
    })
m = {
 "version": 1,
 "setup_cmd": "./check setup",
 "hooks": {
   "guard": "cargo feature verif_hooks (fn_graph/Cargo.toml [features] verif_hooks = [])",
   "enable": "the harness depends on fn_graph by path (/repo) with features graph_info + verif_hooks (and interruptible in its second build; default-features off in its third); cargo rebuilds from /repo's working tree on every check",
   "baseline_off_cmd": "cd /repo && cargo test --workspace --no-fail-fast --offline",
   "source_commits": [hook],
   "add_only": True,
 },
 "engines": [
   {"name": "fgverif", "path": "/verif/harness", "serves_properties": [p for p in sorted(P) if p != "C19"], "kind_free_text": "Rust crate: tape decoders, controlled executor, stream consumer, oracles, builder/sequence/history/multi checks, proptest driver; built four times (fn_graph with default features, with interruptible, without async, and default features without debug assertions)"},
   {"name": "c19", "path": "/verif/c19/run.py", "serves_properties": ["C19"], "kind_free_text": "program generator + cargo check as oracle"},
   {"name": "fuzz", "path": "/verif/fuzz", "serves_properties": ["C01","C02","C03","C04","C05","C06","C07","C08","C09","C10","C11","C12","C13","C14","C16","C17"], "kind_free_text": "cargo-fuzz (libFuzzer) targets run/consume/build with the same decoder and in-target oracles; thorough tier only"},
 ],
 "checks": checks,
 "notes": "Exit codes: 0 held, 1 VIOLATION, 2 no verdict (build failure, watchdog). VERIF_SEED selects the proptest seeds. Replays: /verif/replays/regression (committed) and /verif/replays/found (written by checks).",
 "not_applicable": [],
}
json.dump(m, open(os.path.join(V, "MANIFEST.json"), "w"), indent=1)
print("wrote MANIFEST.json with", len(checks), "checks")
