#!/bin/bash
# Runs every check at the given tier, prints a summary line per property.
tier=${1:-quick}
cd "$(dirname "$0")/.."
for i in $(seq -w 1 20); do
  p="C$i"
  s=$(date +%s.%N)
  out=$(./check $p $tier 2>&1); rc=$?
  e=$(date +%s.%N)
  printf "%s rc=%s %.1fs %s\n" $p $rc $(echo "$e - $s" | bc) "$(echo "$out" | grep -cE '^VIOLATION')"
  if [ $rc -ne 0 ]; then echo "$out" | grep -E "VIOLATION|violation:|INCONCLUSIVE|BUILD" | head -5; fi
done
