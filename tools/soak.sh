#!/bin/bash
# False-alarm soak: every quick check on the unchanged tree, fresh process per run, N seeds.
# usage: tools/soak.sh "<seed list>" [tier]      -> prints one line per (seed, property) that is not exit 0
cd "$(dirname "$0")/.."
seeds=${1:-"1 2 3 4 5 6 7 8 9 10"}; tier=${2:-quick}
bad=0; n=0
for s in $seeds; do
  for i in $(seq -w 1 20); do
    p="C$i"
    out=$(VERIF_SEED=$s ./check $p $tier 2>&1); rc=$?
    n=$((n+1))
    if [ $rc -ne 0 ]; then bad=$((bad+1)); echo "seed=$s $p rc=$rc"; echo "$out" | grep -E "VIOLATION|violation:|INCONCLUSIVE|BUILD" | head -3; fi
  done
  echo "seed $s done ($n runs, $bad not silent)"
done
echo "SOAK: $n runs, $bad not silent"
