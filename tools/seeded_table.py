#!/usr/bin/env python3
"""Prints the markdown table of seeded changes (from seeded/*/meta.json)."""
import json, glob, os
V = os.path.dirname(os.path.dirname(os.path.abspath(__file__)))
print("| id | breaks | needs in order to manifest | confirmed (demo fails with / passes without, 44 tests pass, 3 feature sets build) | checks run (exit) | caught by |")
print("|---|---|---|---|---|---|")
for f in sorted(glob.glob(os.path.join(V, "seeded", "*", "meta.json"))):
    m = json.load(open(f))
    checks = ", ".join("%s: %s" % (c, r["exit"]) for c, r in sorted(m.get("checks", {}).items()))
    print("| %s | %s | %s | %s | %s | %s |" % (m["id"], m["breaks_property"], m.get("needs_to_manifest", ""), "yes" if m.get("confirmed") else "NO", checks, ", ".join(m.get("caught_by", [])) or "**missed**"))
