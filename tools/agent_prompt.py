"""Prompt for a seeding sub-agent: usage agent_prompt.py <property id> <round number> <worktree dir>.
The agent sees the property text, its own scratch worktree and one line per earlier change
(what it needed in order to manifest) - nothing else from /verif."""
import sys, json, glob
pid=sys.argv[1]; rnd=sys.argv[2]; wt=sys.argv[3]
for l in open('/verif/properties.jsonl'):
    d=json.loads(l)
    if d['id']==pid:
        prop="%s — %s\n\n%s\n\nQuantified over: %s\n" % (d['id'], d['title'], d['statement'], d['quantifier']['text'])
tried=[]
for f in sorted(glob.glob('/verif/seeded/%s*/meta.json'%pid)):
    m=json.load(open(f)); tried.append("- "+m.get('needs_to_manifest','')[:300])
own={
 "C01":["conflict predicate missing a clause","same-rank peers skipped by the augmenter","scheduling structures copied before data edges were added"],
 "C02":["done notification sent before awaiting the user future","reverse order using incoming counts","releasing a function when one predecessor is still running"],
 "C03":["ready id queued twice","channel capacity too small"],
 "C04":["missing empty-graph release of the done sender","done sender kept on interruption","error channel of capacity 1"],
 "C05":["single notification consumed per poll without re-registering the waker","stream keeps its senders after the last item"],
 "C06":["read-read treated as conflict","queuer releases one successor per notification"],
 "C07":["done sender kept after an error","error channel too small"],
 "C08":["include flag ignored","user closure called lazily at first poll of the per-item future"],
 "C09":["not-processed list computed wrongly","state Finished with one function remaining","Continue returned for an interrupted run"],
 "C10":["limit+1 passed to for_each_concurrent"],
 "C11":["data edges labelled Logic","contains edges inserted backwards"],
 "C12":["tie-break by descending insertion index","descending scan producing redundant data edges","PartialEq ignoring edge kinds"],
 "C13":["contains edges not counted towards the rank"],
 "C14":["iter_rev sorted by rank only","try_for_each continuing after an error"],
 "C15":["root set cached once per graph regardless of stream order"],
 "C16":["contains edge inserted with swapped endpoints","add_edge instead of update_edge","undirected lookup of existing edge","batch forms delegating to Dag::add_edges"],
 "C17":["from_graph skipping Data edges","iter_rev not reversed","rank-sorted iteration with stale ranks"],
 "C18":["re-queueing children on every visit / on >= instead of >","recursive reachability without a visited set in the augmenter"],
 "C19":["PhantomData<Rc> marker in FnRef","Rc held across an await","LocalBoxFuture helper","RefCell shared across awaits"],
 "C20":["process-wide static counter","per-graph shared atomic predecessor counters","start set cached per graph"],
}
for o in own.get(pid,[]): tried.append("- "+o)
tried_txt="\n".join(tried)
print(f"""You are helping to test a verification suite for the Rust library `fn_graph` (azriel91/fn_graph: stores functions in a DAG, builds a graph with extra data-conflict edges, and runs the functions concurrently / as streams, starting each once its predecessors finished).

You have your own scratch git worktree of the library at {wt} . Work ONLY inside that directory. Never modify /repo, never read or touch /verif, do not look at other directories under /root/seedwork or /tmp. There is no network: always pass `--offline` to cargo (e.g. `CARGO_NET_OFFLINE=true cargo test --workspace --no-fail-fast --offline`). The first build takes about a minute.

The following property is supposed to hold for the library:

----
{prop}----

YOUR TASK: produce a realistic change to the library source (files under src/) that BREAKS this property, while
  (1) the crate still compiles with default features, with `--features interruptible` and with `--features graph_info`;
  (2) the existing test-suite still passes unchanged: `cargo test --workspace --no-fail-fast --offline` must report 44 passed, 0 failed (run it with your demo files moved out of tests/).
The change must look like a plausible bug a maintainer could introduce (refactoring slip, wrong condition, off-by-one, missed case, stale copy, premature optimisation, two cooperating sites that each look fine alone) and must need something SPECIFIC and RARE to manifest: a particular interleaving / completion order, a failure or interrupt at one particular point, a multi-step sequence of operations, an unusual input or graph shape or size, a particular option combination, a particular behaviour of the caller's futures (e.g. futures that complete immediately, or that wake themselves), or two conditions at once. It must NOT be something that ordinary use exposes at once, and not blatant sabotage (no magic constants like `if id == 42`). Keep it as small as the mechanism allows.

This is round {rnd}. The following mechanisms / triggers were already used for this property in earlier rounds — do something mechanistically DIFFERENT, and prefer a trigger that is harder to hit than these:
{tried_txt}

Also write a DEMONSTRATION: a test or small program that FAILS (or hangs, with a timeout) with your change and PASSES without it. An integration test file such as tests/demo{rnd}.rs is fine; crates available offline include `futures` and `tokio` (dev-dependency with features macros, rt, sync, time) and, with `--features interruptible`, the `interruptible` crate. To store your own function type, implement `fn_graph::DataAccessDyn` for a struct (default features; `borrows()` / `borrow_muts()` return `fn_graph::TypeIds` collected from `std::any::TypeId::of::<T>()`). The features `fn_meta resman fn_res` do build offline if you need them. (A cargo feature `verif_hooks` exists in the tree; ignore it.)

DELIVERABLES, in {wt}/out/ :
  - patch.diff : `git diff` of src/ only, relative to HEAD, so that `git apply out/patch.diff` at the repository root applies it;
  - the demonstration file (also left in tests/), and the exact command to run it (name the test file demo{rnd}_{pid.lower()}.rs so the command is `cargo test --offline --test demo{rnd}_{pid.lower()}` plus any --features);
  - README.md : what the change is, why it breaks the property, what it needs in order to manifest, the demo's output WITH the change (failing) and WITHOUT it (passing), and confirmation that the 44 existing tests pass with the change and that all three feature configurations compile.
One change is enough; quality and subtlety matter more than quantity. When done, revert src/ in the worktree (`git checkout -- src`) but keep out/ and the demo test file. Finish with a short summary of what you produced.""")
