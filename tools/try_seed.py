#!/usr/bin/env python3
"""Confirm a seeded change delivered by a sub-agent and run the checks against it.

usage: try_seed.py <id> <property> <worktree> <patch> <demo_test_name> [--features F] [--checks C01,C04] [--tier quick]

1. in the agent's scratch worktree: demo passes on the clean tree; with the patch
   applied the pinned 44 tests still pass, the three feature configurations
   build, and the demo fails;
2. apply the patch to /repo, run the named checks, undo it straight afterwards;
3. store everything in /verif/seeded/<id>/ (patch.diff, demo, agent notes, meta.json).
"""
import argparse, json, os, shutil, subprocess, sys, time

VERIF = os.path.dirname(os.path.dirname(os.path.abspath(__file__)))

def sh(cmd, cwd=None, timeout=3600):
    p = subprocess.run(cmd, shell=True, cwd=cwd, capture_output=True, text=True, timeout=timeout)
    return p.returncode, p.stdout + p.stderr

def main():
    ap = argparse.ArgumentParser()
    ap.add_argument("id"); ap.add_argument("prop"); ap.add_argument("worktree"); ap.add_argument("patch"); ap.add_argument("demo")
    ap.add_argument("--features", default="")
    ap.add_argument("--checks", default="")
    ap.add_argument("--tier", default="quick")
    ap.add_argument("--needs", default="")
    ap.add_argument("--skip-confirm", action="store_true")
    ap.add_argument("--confirm-only", action="store_true")
    a = ap.parse_args()
    wt = a.worktree
    feat = ("--features " + a.features) if a.features else ""
    demo_cmd = "CARGO_NET_OFFLINE=true timeout 900 cargo test --offline %s --test %s 2>&1 | tail -15" % (feat, a.demo)
    meta = {"id": a.id, "breaks_property": a.prop, "needs_to_manifest": a.needs, "demo_command": demo_cmd, "ran": []}
    def summ(out):
        lines = [l for l in out.splitlines() if "test result" in l or "error" in l.lower()[:40]]
        return " | ".join(lines[-3:])[:400]
    if not a.skip_confirm:
        sh("git checkout -- src && git clean -fdq src", cwd=wt)
        rc, out = sh(demo_cmd, cwd=wt)
        clean_ok = "test result: ok" in out and "FAILED" not in out
        meta["demo_on_clean_tree"] = summ(out)
        rc, out = sh("git apply %s" % a.patch, cwd=wt)
        if rc != 0:
            print("patch does not apply in worktree:", out); sys.exit(2)
        rc, out = sh("CARGO_NET_OFFLINE=true cargo test --offline --lib 2>&1 | grep 'test result'", cwd=wt)
        meta["pinned_suite_with_change"] = out.strip()
        suite_ok = "44 passed; 0 failed" in out
        builds = {}
        for f in ["", "--features interruptible", "--features graph_info"]:
            rc, out = sh("CARGO_NET_OFFLINE=true cargo build --offline %s 2>&1 | tail -1" % f, cwd=wt)
            builds[f or "default"] = "Finished" in out
        meta["builds_with_change"] = builds
        rc, out = sh(demo_cmd, cwd=wt)
        demo_fails = "FAILED" in out or "test result: ok" not in out
        meta["demo_with_change"] = summ(out)
        sh("git checkout -- src && git clean -fdq src", cwd=wt)
        meta["confirmed"] = bool(clean_ok and suite_ok and all(builds.values()) and demo_fails)
        print("confirm: clean demo ok=%s suite ok=%s builds=%s demo fails with change=%s" % (clean_ok, suite_ok, builds, demo_fails))
    # run the checks against /repo with the patch applied
    checks = [c for c in (a.checks or a.prop).split(",") if c]
    if a.confirm_only:
        checks = []
    rc, out = sh("git -C /repo status --porcelain")
    if out.strip() and checks:
        print("/repo is not clean, refusing:", out); sys.exit(2)
    if checks:
        rc, out = sh("git -C /repo apply %s" % a.patch)
        if rc != 0:
            print("patch does not apply to /repo:", out); sys.exit(2)
    results = {}
    try:
        for c in checks:
            t0 = time.time()
            rc, out = sh("./check %s %s" % (c, a.tier), cwd=VERIF)
            first = [l for l in out.splitlines() if l.startswith("violation:")]
            viol = [l for l in out.splitlines() if l.startswith("VIOLATION")]
            results[c] = {"exit": rc, "violations": len(viol), "first": first[0][:400] if first else "", "wall_s": round(time.time() - t0, 1)}
            print(c, a.tier, "exit", rc, (first[0][:160] if first else ""))
            meta["ran"].append("./check %s %s -> exit %d" % (c, a.tier, rc))
    finally:
        if checks:
            sh("git -C /repo checkout -- . && git -C /repo clean -fdq src tests")
            # replays found against a seeded change must not stay in the replay tier
            sh("rm -rf %s/replays/found" % VERIF)
    rc, out = sh("git -C /repo status --porcelain")
    assert a.confirm_only or not out.strip(), "/repo not restored: " + out
    meta["checks"] = results
    meta["caught_by"] = [c for c, r in results.items() if r["exit"] == 1]
    d = os.path.join(VERIF, "seeded", a.id)
    os.makedirs(d, exist_ok=True)
    shutil.copy(a.patch, os.path.join(d, "patch.diff"))
    demo_src = os.path.join(wt, "tests", a.demo + ".rs")
    if os.path.exists(demo_src):
        shutil.copy(demo_src, os.path.join(d, a.demo + ".rs"))
    readme = os.path.join(os.path.dirname(a.patch), "README.md")
    if os.path.exists(readme):
        shutil.copy(readme, os.path.join(d, "agent_notes.md"))
    old = {}
    mp = os.path.join(d, "meta.json")
    if os.path.exists(mp):
        old = json.load(open(mp))
        for k in ["demo_on_clean_tree", "pinned_suite_with_change", "builds_with_change", "demo_with_change", "confirmed"]:
            if k in old and k not in meta:
                meta[k] = old[k]
        oc = old.get("checks", {}); oc.update(meta["checks"]); meta["checks"] = oc
        meta["caught_by"] = sorted(c for c, r in oc.items() if r["exit"] == 1)
        meta["ran"] = old.get("ran", []) + meta["ran"]
        if not meta["needs_to_manifest"]:
            meta["needs_to_manifest"] = old.get("needs_to_manifest", "")
    json.dump(meta, open(mp, "w"), indent=1)
    print("stored", d, "caught_by", meta["caught_by"])

if __name__ == "__main__":
    main()
