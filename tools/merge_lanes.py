#!/usr/bin/env python3
"""Merges the results of seeded-change runs done in parallel scratch lanes (a copy of /verif whose
harness is pointed at a scratch worktree of /repo carrying the patch) into seeded/<id>/meta.json.
usage: merge_lanes.py <lanes.log>   (one JSON object per line: seed, check, exit, wall_s, first)"""
import json, sys
seen = set()
for l in open(sys.argv[1]):
    l = l.strip()
    if not l.startswith('{'):
        continue
    d = json.loads(l)
    mp = '/verif/seeded/%s/meta.json' % d['seed']
    m = json.load(open(mp))
    key = (d['seed'], d['check'])
    if key in seen:
        continue
    seen.add(key)
    tag = "./check %s quick -> exit %d (run in a scratch copy of /verif whose harness was pointed at a scratch worktree of /repo carrying the patch; several such lanes in parallel)" % (d['check'], d['exit'])
    if tag not in m['ran']:
        m['ran'].append(tag)
    old = m.setdefault('checks', {}).get(d['check'])
    e = {"exit": d['exit'], "violations": 1 if d['exit'] == 1 else 0, "first": d['first'], "wall_s": d['wall_s']}
    if old and old['exit'] != d['exit']:
        e['first_pass_exit'] = old['exit']
    m['checks'][d['check']] = e
    m['caught_by'] = sorted(c for c, r in m['checks'].items() if r['exit'] == 1)
    json.dump(m, open(mp, 'w'), indent=1)
print(len(seen), "merged")
