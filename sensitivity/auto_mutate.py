#!/usr/bin/env python3
"""First-order mutation sweep over fn_graph's non-test source, to find blind
spots of the checks systematically (complements the hand-written breaks in
mutants.py and the seeded changes).

For every mutation site (operator table below) in the non-test part of the
scheduling / builder sources: apply it to a scratch worktree, make sure the
crate still builds and the pinned 44 tests still pass (otherwise the mutant is
"killed by the compiler / pinned suite" and says nothing about our checks), then
run the quick checks that are relevant for the file with a reduced case count.
A mutant that no check kills is a SURVIVOR: either equivalent, or a gap.

usage: auto_mutate.py [--files a,b] [--limit N] [--offset K] [--cases N]
results: sensitivity/auto_results.json (+ AUTO_RESULTS.md)
"""
import argparse, json, os, re, shutil, subprocess, sys, time

HERE = os.path.dirname(os.path.abspath(__file__))
VERIF = os.path.dirname(HERE)
SCR = os.environ.get("FG_AUTO_DIR", "/tmp/fgauto")
SREPO = os.path.join(SCR, "repo")
SVERIF = os.path.join(SCR, "verif")

FILES = {
    "src/fn_graph.rs": ["C01", "C02", "C03", "C04", "C05", "C06", "C07", "C08", "C09", "C10", "C14", "C15", "C20", "C12"],
    "src/fn_graph_builder.rs": ["C11", "C12", "C13", "C14", "C16", "C01", "C02", "C06"],
    "src/fn_graph_builder/data_edge_augmenter.rs": ["C11", "C12", "C01", "C06", "C18"],
    "src/fn_graph_builder/rank_calc.rs": ["C13", "C12", "C18"],
    "src/fn_graph_builder/predecessor_count_calc.rs": ["C01", "C02", "C03", "C04", "C05"],
    "src/stream_outcome.rs": ["C09"],
    "src/graph_info.rs": ["C17"],
    "src/fn_ref.rs": ["C05", "C01", "C19"],
    "src/stream_opts.rs": ["C02", "C08"],
    "src/edge_counts.rs": ["C02", "C04"],
}

# (regex, replacement, description)
OPS = [
    (r"== 0\b", "== 1", "==0 -> ==1"),
    (r"== 0\b", "!= 0", "==0 -> !=0"),
    (r"-= 1;", "-= 0;", "-=1 -> -=0"),
    (r"\+ 1\b", "+ 0", "+1 -> +0"),
    (r"\+ 1\b", "+ 2", "+1 -> +2"),
    (r"cmp::max\(", "cmp::min(", "max -> min"),
    (r"std::cmp::max\(1, ", "std::cmp::max(0, ", "max(1,..) -> max(0,..)"),
    (r"\.incoming\(\)", ".outgoing()", "incoming -> outgoing"),
    (r"\.outgoing\(\)", ".incoming()", "outgoing -> incoming"),
    (r"\.children\(", ".parents(", "children -> parents"),
    (r"\.parents\(", ".children(", "parents -> children"),
    (r"StreamOrder::Forward =>", "StreamOrder::Reverse =>", "swap order arm (fwd)"),
    (r"Edge::Data\b", "Edge::Logic", "Data -> Logic"),
    (r"Edge::Contains\b", "Edge::Logic", "Contains -> Logic"),
    (r"\btrue\b", "false", "true -> false"),
    (r"\bfalse\b", "true", "false -> true"),
    (r" && ", " || ", "&& -> ||"),
    (r" \|\| ", " && ", "|| -> &&"),
    (r"if !", "if ", "drop negation"),
    (r"\[index\.\.\]", "[index + 1..]", "slice index.. -> index+1.."),
    (r"\.rev\(\)", "", "drop .rev()"),
    (r"\.fill\(false\)", ".fill(true)", "fill(false) -> fill(true)"),
    (r"(?m)^(\s*)(\S[^\n]*\.take\(\);)\n", r"\1// MUTANT removed: \2\n", "remove a .take(); statement"),
    (r"(?m)^(\s*)(drop\([a-z_]+\);)\n", r"\1// MUTANT removed: \2\n", "remove a drop(..); statement"),
    (r"(?m)^(\s*)(fn_done_send(_locked)?\([^\n]*\)\.await;)\n", r"\1// MUTANT removed: \2\n", "remove done notification"),
    (r"(?m)^(\s*)(fns_remaining_decrement\([^\n]*\)\.await;)\n", r"\1// MUTANT removed: \2\n", "remove remaining decrement"),
    (r"(?m)^(\s*)(fns_remaining -= 1;)\n", r"\1// MUTANT removed: \2\n", "remove remaining decrement (fold)"),
    (r"(?m)^(\s*)(fn_ids_processed\.push\(fn_id\);)\n", r"\1// MUTANT removed: \2\n", "remove processed push"),
    (r"try_send\(child_fn_id\)", "try_send(fn_id)", "queue parent instead of child"),
    (r"PollOutcome::Interrupted\(fn_id\) => \(fn_id, true\)", "PollOutcome::Interrupted(fn_id) => (fn_id, false)", "interrupted flag lost"),
    (r"0 => StreamOutcomeState::Finished", "1 => StreamOutcomeState::Finished", "finished at 1 remaining"),
    (r"Poll::Ready\(None\)\n(\s*)\};", "Poll::Pending\n\\1};", "stream end -> pending"),
]


def sh(cmd, cwd=None, timeout=3600):
    p = subprocess.run(cmd, shell=True, cwd=cwd, capture_output=True, text=True, timeout=timeout)
    return p.returncode, p.stdout + p.stderr


def setup():
    os.makedirs(SCR, exist_ok=True)
    if not os.path.exists(SREPO):
        rc, out = sh("git -C /repo worktree add --detach %s HEAD" % SREPO)
        if rc != 0:
            print(out); sys.exit(2)
    sh("git checkout -- . && git checkout --detach $(git -C /repo rev-parse HEAD)", cwd=SREPO)
    os.makedirs(SVERIF, exist_ok=True)
    sh("rsync -a --delete --exclude .git --exclude harness/target --exclude 'harness/fuzz/target*' --exclude harness/fuzz/work --exclude c19/work --exclude replays/found --exclude evidence --exclude seeded %s/ %s/" % (VERIF, SVERIF))
    for f in ["harness/Cargo.toml", "c19/run.py"]:
        p = os.path.join(SVERIF, f)
        s = open(p).read().replace('"/repo"', '"%s"' % SREPO)
        open(p, "w").write(s)
    rc, out = sh("FG_DEV=1 ./check setup", cwd=SVERIF)
    if rc != 0:
        print("scratch harness does not build", out[-2000:]); sys.exit(2)


def sites(path):
    src = open(os.path.join(SREPO, path)).read()
    cut = src.find("#[cfg(test)]")
    m2 = src.find("#[cfg(feature = \"fn_meta\")]\n#[cfg(test)]")
    if m2 >= 0:
        cut = m2
    body = src if cut < 0 else src[:cut]
    out = []
    for rx, rep, desc in OPS:
        for k, m in enumerate(re.finditer(rx, body)):
            line = body.count("\n", 0, m.start()) + 1
            text = body[body.rfind("\n", 0, m.start()) + 1: body.find("\n", m.end())].strip()
            if text.startswith("//") or text.startswith("///") or "expect(" in text and "true" in rep:
                continue
            out.append({"file": path, "op": desc, "rx": rx, "rep": rep, "k": k, "line": line, "text": text[:120]})
    return out


def apply(site):
    p = os.path.join(SREPO, site["file"])
    src = open(p).read()
    ms = list(re.finditer(site["rx"], src))
    if site["k"] >= len(ms):
        return False
    m = ms[site["k"]]
    new = src[:m.start()] + m.expand(site["rep"]) + src[m.end():]
    if new == src:
        return False
    open(p, "w").write(new)
    return True


def main():
    ap = argparse.ArgumentParser()
    ap.add_argument("--files", default="")
    ap.add_argument("--limit", type=int, default=0)
    ap.add_argument("--offset", type=int, default=0)
    ap.add_argument("--cases", type=int, default=60000)
    ap.add_argument("--every", type=int, default=1, help="take every n-th site")
    a = ap.parse_args()
    setup()
    files = [f for f in FILES if (not a.files or any(x in f for x in a.files.split(",")))]
    all_sites = []
    for f in files:
        all_sites += sites(f)
    all_sites = all_sites[a.offset::a.every]
    if a.limit:
        all_sites = all_sites[:a.limit]
    print("mutation sites:", len(all_sites), flush=True)
    rp = os.path.join(HERE, "auto_results.json")
    results = json.load(open(rp)) if os.path.exists(rp) else {}
    for i, site in enumerate(all_sites):
        key = "%s:%d:%s#%d" % (site["file"], site["line"], site["op"], site["k"])
        if key in results:
            continue
        sh("git checkout -- .", cwd=SREPO)
        if not apply(site):
            continue
        t0 = time.time()
        rec = dict(site)
        rc, out = sh("CARGO_NET_OFFLINE=true cargo test --workspace --no-fail-fast --offline 2>&1 | grep -E 'test result|^error' | head -3", cwd=SREPO)
        if "44 passed; 0 failed" not in out:
            rec["status"] = "killed by compiler" if "error" in out and "test result" not in out else "killed by pinned suite"
        else:
            killed_by = []
            inconclusive = []
            for c in FILES[site["file"]]:
                rc, o = sh("FG_DEV=1 FG_CASES=%d FG_THREAD_CASES=1500 ./check %s quick" % (a.cases, c), cwd=SVERIF, timeout=1800)
                if rc == 1:
                    first = [l for l in o.splitlines() if l.startswith("violation:")]
                    killed_by.append((c, first[0][:160] if first else ""))
                    break   # one kill is enough
                if rc == 2:
                    inconclusive.append(c)
                    if "BUILD-FAILED" in o:
                        break
            sh("rm -rf replays/found", cwd=SVERIF)
            if killed_by:
                rec["status"] = "killed"
                rec["killed_by"] = killed_by
            elif inconclusive:
                rec["status"] = "no verdict (exit 2: %s)" % ",".join(inconclusive)
            else:
                rec["status"] = "SURVIVED"
        rec["wall_s"] = round(time.time() - t0, 1)
        results[key] = rec
        print(i, key, rec["status"], rec.get("killed_by", ""), rec["wall_s"], flush=True)
        json.dump(results, open(rp, "w"), indent=1)
    sh("git checkout -- .", cwd=SREPO)
    with open(os.path.join(HERE, "AUTO_RESULTS.md"), "w") as f:
        st = {}
        for r in results.values():
            k = r["status"].split(" (")[0]
            st[k] = st.get(k, 0) + 1
        f.write("# Automatic first-order mutation sweep\n\n%s\n\n" % json.dumps(st))
        f.write("| site | operator | line text | status | killed by |\n|---|---|---|---|---|\n")
        for k, r in sorted(results.items()):
            f.write("| %s:%d | %s | `%s` | %s | %s |\n" % (r["file"], r["line"], r["op"], r["text"].replace("|", "\\|"), r["status"], "; ".join("%s %s" % (c, m[:80].replace("|", "\\|")) for c, m in r.get("killed_by", []))))
    if os.environ.get("FG_AUTO_KEEP") != "1":
        sh("git -C /repo worktree remove --force %s" % SREPO)
        shutil.rmtree(SCR, ignore_errors=True)


if __name__ == "__main__":
    main()
