"""Deliberate breaks (DESIGN.md §6).  Each entry: name, properties whose check
must fail, list of (file, old, new) textual edits against /repo HEAD.  Every
mutant compiles and passes the pinned 44 tests (verified by run.py)."""

FG = "src/fn_graph.rs"
AUG = "src/fn_graph_builder/data_edge_augmenter.rs"
BLD = "src/fn_graph_builder.rs"
RANK = "src/fn_graph_builder/rank_calc.rs"
PRED = "src/fn_graph_builder/predecessor_count_calc.rs"
OUT = "src/stream_outcome.rs"
GI = "src/graph_info.rs"
FNREF = "src/fn_ref.rs"

M = []

def m(name, props, edits, note=""):
    M.append({"name": name, "props": props, "edits": edits, "note": note})

# ---------------------------------------------------------------- C01
m("c01_drop_write_read_clause", ["C01", "C11"], [(AUG,
  """                            || fn_borrow_muts
                                .iter()
                                .any(|left| fn_next_borrows.iter().any(|right| left == right))
""", "")], "conflict predicate loses the write->read clause")
m("c01_skip_same_rank_peers", ["C01", "C11"], [(AUG,
  """                .filter(|fn_id_next| fn_id != *fn_id_next);""",
  """                .filter(|fn_id_next| ranks[fn_id_next.index()] > ranks[fn_id.index()]);""")],
  "only strictly higher ranks are scanned")
m("c01_structure_before_augment", ["C01", "C06"], [(BLD,
  """        let ranks = RankCalc::calc(&graph);
        DataEdgeAugmenter::augment(&mut graph, &ranks);
""",
  """        let ranks = RankCalc::calc(&graph);
        let graph_pre = graph.map(|_, _| (), |_, e| *e);
        DataEdgeAugmenter::augment(&mut graph, &ranks);
"""), (BLD,
  """        graph
            .raw_edges()
            .iter()
            .try_for_each(|edge| {
                graph_structure""",
  """        graph_pre
            .raw_edges()
            .iter()
            .try_for_each(|edge| {
                graph_structure""")], "scheduling structures copied before data edges are added (counts include them)")
# ---------------------------------------------------------------- C02
m("c02_reverse_uses_incoming", ["C02"], [(FG,
  "StreamOrder::Reverse => (graph_structure_rev, edge_counts.outgoing().to_vec()),",
  "StreamOrder::Reverse => (graph_structure_rev, edge_counts.incoming().to_vec()),")], "reverse order with incoming counts")
m("c02_release_at_one", ["C02"], [(FG,
  """                        predecessor_counts[child_fn_id.index()] -= 1;
                        if predecessor_counts[child_fn_id.index()] == 0 {
                            if let Some(fn_ready_tx) = fn_ready_tx.as_ref() {
                                // If we fail to queue a function, the scheduler has been
                                // interrupted.
                                let _ = fn_ready_tx.try_send(child_fn_id);
                            }
                        }
                    });

                QueuerStreamState {""",
  """                        predecessor_counts[child_fn_id.index()] -= 1;
                        if predecessor_counts[child_fn_id.index()] == 1 {
                            if let Some(fn_ready_tx) = fn_ready_tx.as_ref() {
                                let _ = fn_ready_tx.try_send(child_fn_id);
                            }
                            predecessor_counts[child_fn_id.index()] = usize::MAX / 2;
                        } else if predecessor_counts[child_fn_id.index()] == 0 {
                            if let Some(fn_ready_tx) = fn_ready_tx.as_ref() {
                                // If we fail to queue a function, the scheduler has been
                                // interrupted.
                                let _ = fn_ready_tx.try_send(child_fn_id);
                            }
                        }
                    });

                QueuerStreamState {""")], "queuer releases a function when one predecessor is still running")
# ---------------------------------------------------------------- C03
m("c03_channel_capacity_16", ["C04", "C05"], [(FG,
  "let channel_capacity = std::cmp::max(1, graph_structure.node_count());\n    let (fn_ready_tx, fn_ready_rx)",
  "let channel_capacity = std::cmp::min(16, std::cmp::max(1, graph_structure.node_count()));\n    let (fn_ready_tx, fn_ready_rx)")],
  "ready/done channels capped at 16 (preload panics or ids are lost on wide graphs)")
m("c03_ready_sent_twice", ["C03"], [(FG,
  """                                // If we fail to queue a function, the scheduler has been
                                // interrupted.
                                let _ = fn_ready_tx.try_send(child_fn_id);
                            }
                        }
                    });

                QueuerStreamState {""",
  """                                // If we fail to queue a function, the scheduler has been
                                // interrupted.
                                let _ = fn_ready_tx.try_send(child_fn_id);
                                if child_fn_id.index() % 5 == 4 {
                                    let _ = fn_ready_tx.try_send(child_fn_id);
                                }
                            }
                        }
                    });

                QueuerStreamState {""")], "some ready ids are queued twice")
# ---------------------------------------------------------------- C04
m("c04_remove_empty_release_for_each", ["C04"], [(FG,
  """        let fn_refs = graph;

        if graph_structure.node_count() == 0 {
            fn_done_tx.write().await.take();
        }""",
  """        let fn_refs = graph;
""")], "for_each_concurrent loses its empty-graph release")
m("c04_keep_done_tx_on_interrupt", ["C04", "C08"], [(FG,
  """    if interrupted {
        fn_done_tx.write().await.take();
    }
}""",
  """    if interrupted && false {
        fn_done_tx.write().await.take();
    }
}""")], "done sender kept on interruption (concurrent paths never return)")
# ---------------------------------------------------------------- C05
m("c05_revert_drain", ["C05", "C06"], [(FG,
  "while let Poll::Ready(Some(fn_id)) = fn_done_rx.poll_recv(context) {",
  "if let Poll::Ready(Some(fn_id)) = fn_done_rx.poll_recv(context) {")], "defect B again")
# ---------------------------------------------------------------- C06
m("c06_read_read_conflict", ["C06", "C11", "C12"], [(AUG,
  """                        let conflict = fn_borrows
                            .iter()
                            .any(|left| fn_next_borrow_muts.iter().any(|right| left == right))""",
  """                        let conflict = fn_borrows
                            .iter()
                            .any(|left| fn_next_borrows.iter().any(|right| left == right))
                            || fn_borrows
                            .iter()
                            .any(|left| fn_next_borrow_muts.iter().any(|right| left == right))""")],
  "shared read access is treated as a conflict")
m("c06_one_successor_per_notification", ["C06", "C04"], [(FG,
  """                graph_structure
                    .children(fn_id)
                    .iter(graph_structure)
                    .for_each(|(_edge_id, child_fn_id)| {
                        predecessor_counts[child_fn_id.index()] -= 1;
                        if predecessor_counts[child_fn_id.index()] == 0 {
                            if let Some(fn_ready_tx) = fn_ready_tx.as_ref() {
                                // If we fail to queue a function, the scheduler has been
                                // interrupted.
                                let _ = fn_ready_tx.try_send(child_fn_id);
                            }
                        }
                    });

                QueuerStreamState {""",
  """                let mut released = false;
                graph_structure
                    .children(fn_id)
                    .iter(graph_structure)
                    .for_each(|(_edge_id, child_fn_id)| {
                        predecessor_counts[child_fn_id.index()] -= 1;
                        if predecessor_counts[child_fn_id.index()] == 0 && !released {
                            if let Some(fn_ready_tx) = fn_ready_tx.as_ref() {
                                released = true;
                                let _ = fn_ready_tx.try_send(child_fn_id);
                            }
                        }
                    });

                QueuerStreamState {""")], "queuer releases at most one successor per notification")
# ---------------------------------------------------------------- C07
m("c07_result_channel_capacity_1", ["C07", "C04"], [(FG,
  """        let channel_capacity = std::cmp::max(1, graph_structure.node_count());
        let (result_tx, mut result_rx) = mpsc::channel(channel_capacity);

        let fn_done_tx = &fn_done_tx;
        let fn_try_for_each = &fn_try_for_each;
        let fns_remaining = &fns_remaining;
        let fn_refs = &self.graph;""",
  """        let (result_tx, mut result_rx) = mpsc::channel(1);

        let fn_done_tx = &fn_done_tx;
        let fn_try_for_each = &fn_try_for_each;
        let fns_remaining = &fns_remaining;
        let fn_refs = &self.graph;""")], "error channel of capacity 1: a second failure blocks forever")
# ---------------------------------------------------------------- C08
m("c08_ignore_include_flag", ["C08"], [(FG,
  "    if interrupted_next_item_include {\n        poll_and_track_fn_ready_common",
  "    if interrupted_next_item_include || true {\n        poll_and_track_fn_ready_common")], "interrupted_next_item_include = false is ignored")
# ---------------------------------------------------------------- C09
m("c09_not_processed_all_ids", ["C09"], [(OUT,
  """                if fn_ids_processed.contains(&fn_id) {
                    None
                } else {
                    Some(fn_id)
                }""",
  """                if fn_ids_processed.first() == Some(&fn_id) {
                    None
                } else {
                    Some(fn_id)
                }""")], "fn_ids_not_processed only excludes the first processed id")
m("c09_state_from_any_progress", ["C09"], [(FG,
  """    match fns_remaining {
        0 => StreamOutcomeState::Finished,
        _ => StreamOutcomeState::Interrupted,
    }""",
  """    match fns_remaining {
        0 | 1 => StreamOutcomeState::Finished,
        _ => StreamOutcomeState::Interrupted,
    }""")], "state is Finished when one function is still unprocessed")
m("c09_control_continue_on_interrupted", ["C09"], [(FG,
  """            .try_for_each_concurrent_internal(limit, opts, |f| {
                let fut = fn_try_for_each(f);
                async move {
                    match fut.await {
                        ControlFlow::Continue(()) => Result::Ok(()),
                        ControlFlow::Break(e) => Result::Err(e),
                    }
                }
            })
            .await;
        match result {
            Result::Ok(outcome) => match outcome.state {
                StreamOutcomeState::NotStarted | StreamOutcomeState::Interrupted => {
                    ControlFlow::Break((outcome, Vec::new()))
                }
                StreamOutcomeState::Finished => ControlFlow::Continue(outcome),
            },""",
  """            .try_for_each_concurrent_internal(limit, opts, |f| {
                let fut = fn_try_for_each(f);
                async move {
                    match fut.await {
                        ControlFlow::Continue(()) => Result::Ok(()),
                        ControlFlow::Break(e) => Result::Err(e),
                    }
                }
            })
            .await;
        match result {
            Result::Ok(outcome) => match outcome.state {
                StreamOutcomeState::NotStarted => {
                    ControlFlow::Break((outcome, Vec::new()))
                }
                StreamOutcomeState::Finished | StreamOutcomeState::Interrupted => ControlFlow::Continue(outcome),
            },""")], "try_for_each_concurrent_control_with returns Continue for an interrupted run")
# ---------------------------------------------------------------- C10
# ---------------------------------------------------------------- C11 / C12
m("c11_data_edges_labelled_logic", ["C11", "C06", "C12"], [(AUG,
  ".update_edge(fn_id, fn_id_next, Edge::Data)", ".update_edge(fn_id, fn_id_next, Edge::Logic)")], "data edges get kind Logic")
m("c12_unstable_tie_break", ["C12"], [(AUG,
  "fn_ids.sort_by(|fn_id_a, fn_id_b| ranks[fn_id_a.index()].cmp(&ranks[fn_id_b.index()]));",
  "fn_ids.sort_by(|fn_id_a, fn_id_b| ranks[fn_id_a.index()].cmp(&ranks[fn_id_b.index()]).then(fn_id_b.index().cmp(&fn_id_a.index())));")],
  "equal ranks ordered by descending insertion index")
m("c12_descending_scan", ["C12"], [(AUG,
  """            let fn_rank_to_end_iter = fn_ids[index..]
                .iter()
                .copied()
                .filter(|fn_id_next| fn_id != *fn_id_next);""",
  """            let fn_rank_to_end_iter = fn_ids[index..]
                .iter()
                .rev()
                .copied()
                .filter(|fn_id_next| fn_id != *fn_id_next);""")], "far peers first: redundant data edges")
m("c12_partial_eq_ignores_kind", ["C12"], [(FG,
  """                        && edge_self.target() == edge_other.target()
                        && edge_self.weight == edge_other.weight""",
  """                        && edge_self.target() == edge_other.target()""")], "FnGraph == ignores edge kinds")
# ---------------------------------------------------------------- C13
# ---------------------------------------------------------------- C14
m("c14_iter_uses_pre_data_structure", ["C14"], [(FG,
  """        Topo::new(&self.graph_structure_rev)
            .iter(&self.graph_structure_rev)
            .map(|fn_id| &self.graph[fn_id])""",
  """        let mut ids = Topo::new(&self.graph_structure)
            .iter(&self.graph_structure)
            .collect::<Vec<_>>();
        ids.sort_by_key(|fn_id| std::cmp::Reverse(self.ranks[fn_id.index()]));
        ids.into_iter().map(|fn_id| &self.graph[fn_id])""")], "iter_rev orders by descending rank only (ignores data edges between equal ranks)")
m("c14_try_for_each_ignores_error", ["C14"], [(FG,
  """        while let Some(r#fn) = topo.next(&*graph).map(|fn_id| &mut graph[fn_id]) {
            fn_for_each(r#fn)?;
        }
        Ok(())""",
  """        let mut result = Ok(());
        while let Some(r#fn) = topo.next(&*graph).map(|fn_id| &mut graph[fn_id]) {
            if let Err(e) = fn_for_each(r#fn) {
                if result.is_ok() {
                    result = Err(e);
                }
            }
        }
        result""")], "try_for_each keeps invoking after the first error")
# ---------------------------------------------------------------- C16
m("c16_contains_edge_swapped", ["C16", "C11"], [(BLD,
  ".update_edge(function_from, function_to, Edge::Contains)", ".update_edge(function_to, function_from, Edge::Contains)")], "contains edges are inserted backwards")
m("c16_add_edge_instead_of_update", ["C16", "C11"], [(BLD,
  """        self.graph
            .update_edge(function_from, function_to, Edge::Logic)""",
  """        self.graph
            .add_edge(function_from, function_to, Edge::Logic)""")], "repeated logic edges are duplicated")
# ---------------------------------------------------------------- C17
m("c17_from_graph_skips_data", ["C17"], [(GI,
  """            .map(|e| (e.source(), e.target(), e.weight));""",
  """            .filter(|e| e.weight != Edge::Data)
            .map(|e| (e.source(), e.target(), e.weight));""")], "GraphInfo loses data edges")
m("c17_iter_rev_not_reversed", ["C17"], [(GI,
  """        let reversed = Reversed(&self.graph);
        Topo::new(reversed)
            .iter(reversed)
            .map(|fn_id| &self.graph[fn_id])""",
  """        let _reversed = Reversed(&self.graph);
        Topo::new(&self.graph)
            .iter(&self.graph)
            .map(|fn_id| &self.graph[fn_id])""")], "GraphInfo::iter_rev is forward")
# ---------------------------------------------------------------- C18
m("c18_requeue_children", ["C18"], [(RANK,
  """        let mut topo = Topo::new(graph);
        while let Some(fn_id) = topo.next(graph) {""",
  """        let mut queue = std::collections::VecDeque::new();
        let mut topo = Topo::new(graph);
        while let Some(fn_id) = topo.next(graph) {
            if graph.parents(fn_id).walk_next(graph).is_none() {
                queue.push_back(fn_id);
            }
        }
        while let Some(fn_id) = queue.pop_front() {"""), (RANK,
  """                    ranks[child_fn_id.index()] = cmp::max(child_rank_existing, child_rank_maybe);
                });""",
  """                    ranks[child_fn_id.index()] = cmp::max(child_rank_existing, child_rank_maybe);
                    queue.push_back(child_fn_id);
                });""")], "defect C again (every root path walked)")
# ---------------------------------------------------------------- C19
m("c19_fnref_not_send", ["C19"], [(FNREF,
  """    /// Channel to notify when this reference is dropped.
    pub(crate) fn_done_tx: Sender<FnId>,
}""",
  """    /// Channel to notify when this reference is dropped.
    pub(crate) fn_done_tx: Sender<FnId>,
    /// Marker.
    pub(crate) marker: std::marker::PhantomData<std::rc::Rc<()>>,
}"""), (FNREF,
  """            r#fn: &(),
            fn_done_tx,
        };""",
  """            r#fn: &(),
            fn_done_tx,
            marker: std::marker::PhantomData,
        };"""), (FG,
  """                        FnRef {
                            fn_id,
                            r#fn,
                            fn_done_tx: fn_done_tx.clone(),
                        }""",
  """                        FnRef {
                            fn_id,
                            r#fn,
                            fn_done_tx: fn_done_tx.clone(),
                            marker: std::marker::PhantomData,
                        }""")], "FnRef carries a !Send marker")
# ---------------------------------------------------------------- C20 / C15
m("c20_static_remaining_counter", ["C20"], [(FG,
  """    let fn_done_tx = RwLock::new(Some(fn_done_tx));
    let fns_remaining = graph_structure.node_count();
    let fns_remaining = RwLock::new(fns_remaining);""",
  """    let fn_done_tx = RwLock::new(Some(fn_done_tx));
    static RUNS_IN_PROGRESS: std::sync::atomic::AtomicUsize = std::sync::atomic::AtomicUsize::new(0);
    let other = RUNS_IN_PROGRESS.fetch_add(1, std::sync::atomic::Ordering::SeqCst) % 2;
    let fns_remaining = graph_structure.node_count() + if graph_structure.node_count() > 2 { other } else { 0 };
    let fns_remaining = RwLock::new(fns_remaining);""")], "process-wide state leaks into every second concurrent run (remaining count off by one)")

# ---------------------------------------------------------------- second batch
m("c01_structure_and_counts_before_augment", ["C01"], [(BLD,
  """        let ranks = RankCalc::calc(&graph);
        DataEdgeAugmenter::augment(&mut graph, &ranks);
        #[cfg(feature = "async")]
        let edge_counts = PredecessorCountCalc::calc(&graph);
""",
  """        let ranks = RankCalc::calc(&graph);
        let graph_pre = graph.map(|_, _| (), |_, e| *e);
        #[cfg(feature = "async")]
        let edge_counts = PredecessorCountCalc::calc(&graph);
        DataEdgeAugmenter::augment(&mut graph, &ranks);
"""), (BLD,
  """        graph
            .raw_edges()
            .iter()
            .try_for_each(|edge| {
                graph_structure""",
  """        graph_pre
            .raw_edges()
            .iter()
            .try_for_each(|edge| {
                graph_structure""")], "scheduling structures and counts taken before data edges are added")
m("c03_remaining_capped_64", ["C09", "C04"], [(FG,
  """    let fns_remaining = graph_structure.node_count();
    let fns_remaining = RwLock::new(fns_remaining);""",
  """    let fns_remaining = graph_structure.node_count().min(64);
    let fns_remaining = RwLock::new(fns_remaining);""")], "concurrent calls stop after 64 functions")
m("c05_stream_keeps_senders", ["C05"], [(FG,
  """                fns_remaining -= 1;

                if fns_remaining == 0 {
                    fn_done_tx.take();
                    fn_ready_tx.take();
                }
            }

            poll""",
  """                fns_remaining -= 1;
            }

            poll""")], "stream keeps both senders after the last item: pending instead of None")
m("c13_rank_ignores_contains_edges", ["C13"], [(RANK,
  """                .for_each(|(_edge_id, child_fn_id)| {
                    let child_rank_existing = ranks[child_fn_id.index()];""",
  """                .for_each(|(edge_id, child_fn_id)| {
                    if graph.edge_weight(edge_id) == Some(&Edge::Contains) {
                        return;
                    }
                    let child_rank_existing = ranks[child_fn_id.index()];""")], "contains edges do not count towards the rank")

# ---------------------------------------------------------------- third batch (rewritten after fix D changed the per-item closures)
m("c02_done_before_await", ["C02"], [(FG,
  """                        if let Some((fn_id, fn_fut)) = fn_fut {
                            fn_fut.await;
                            fn_done_send_locked(fn_done_tx, fn_id).await;""",
  """                        if let Some((fn_id, fn_fut)) = fn_fut {
                            fn_done_send_locked(fn_done_tx, fn_id).await;
                            fn_fut.await;""")], "for_each_concurrent signals done before awaiting the user future")
m("c07_keep_done_tx_on_error", ["C07"], [(FG,
  """                                // Close `fn_done_rx`, which means `fn_ready_queuer` should return
                                // `Poll::Ready(None)`.
                                fn_done_tx.write().await.take();
""",
  """""", 0)], "try_for_each_concurrent (non-mut) keeps scheduling dependents after an error")
m("c10_limit_plus_one", ["C10"], [(FG,
  """            .for_each_concurrent(
                limit,
""",
  """            .for_each_concurrent(
                limit.into().map(|l| l + 1),
""", 1)], "for_each_concurrent_mut runs limit+1 futures")
m("c19_rc_in_for_each", ["C19"], [(FG,
  """        let fn_done_tx = &fn_done_tx;
        let fn_for_each = &fn_for_each;
        let fns_remaining = &fns_remaining;
        let fn_refs = graph;
""",
  """        let fn_done_tx = &fn_done_tx;
        let fn_for_each = &fn_for_each;
        let fns_remaining = &fns_remaining;
        let fn_refs = graph;
        let started = std::rc::Rc::new(std::cell::Cell::new(0usize));
        let started = &started;
"""), (FG,
  """                        if let Some((fn_id, fn_fut)) = fn_fut {
                            fn_fut.await;
                            fn_done_send_locked(fn_done_tx, fn_id).await;""",
  """                        if let Some((fn_id, fn_fut)) = fn_fut {
                            started.set(started.get() + 1);
                            fn_fut.await;
                            fn_done_send_locked(fn_done_tx, fn_id).await;""")], "an Rc counter lives across awaits in for_each_concurrent")
m("c08_lazy_closure_call", ["C08"], [(FG,
  """                    let fn_fut = fn_id.map(|fn_id| {
                        let r#fn = fn_refs.node_weight(fn_id).expect("Expected to borrow fn.");
                        (fn_id, fn_for_each(r#fn))
                    });""",
  """                    let fn_fut = fn_id.map(|fn_id| {
                        let r#fn = fn_refs.node_weight(fn_id).expect("Expected to borrow fn.");
                        (fn_id, async move { fn_for_each(r#fn).await })
                    });""")], "defect D again in for_each_concurrent: the user's closure is called at the first poll of the per-item future")
