#!/usr/bin/env python3
"""Applies each deliberate break of mutants.py to a *scratch copy* of /repo,
points a scratch copy of /verif at it, confirms that the mutant compiles and
passes the pinned test suite, runs the named quick checks and records whether
they raised a VIOLATION.  /repo and /verif are never touched.

usage: run.py [name-substring ...]      results -> sensitivity/RESULTS.md (+ results.json)
"""
import json, os, shutil, subprocess, sys, time, importlib.util

HERE = os.path.dirname(os.path.abspath(__file__))
VERIF = os.path.dirname(HERE)
SCR = os.environ.get("FG_SENS_DIR", "/tmp/fgsens")
SREPO = os.path.join(SCR, "repo")
SVERIF = os.path.join(SCR, "verif")

spec = importlib.util.spec_from_file_location("mutants", os.path.join(HERE, "mutants.py"))
mod = importlib.util.module_from_spec(spec); spec.loader.exec_module(mod)

def sh(cmd, cwd=None, timeout=3600):
    return subprocess.run(cmd, shell=True, cwd=cwd, capture_output=True, text=True, timeout=timeout)

def setup():
    os.makedirs(SCR, exist_ok=True)
    if not os.path.exists(SREPO):
        r = sh("git -C /repo worktree add --detach %s HEAD" % SREPO)
        if r.returncode != 0:
            print(r.stderr); sys.exit(2)
    sh("git checkout -- . && git clean -fdq -e target", cwd=SREPO)
    sh("git checkout --detach $(git -C /repo rev-parse HEAD)", cwd=SREPO)
    os.makedirs(SVERIF, exist_ok=True)
    sh("rsync -a --delete --exclude .git --exclude harness/target --exclude c19/work --exclude fuzz/target --exclude fuzz/corpus --exclude replays/found --exclude evidence %s/ %s/" % (VERIF, SVERIF))
    for f in ["harness/Cargo.toml", "c19/run.py", "fuzz/Cargo.toml"]:
        p = os.path.join(SVERIF, f)
        if os.path.exists(p):
            s = open(p).read().replace('"/repo"', '"%s"' % SREPO)
            open(p, "w").write(s)

def apply(m):
    for e in m["edits"]:
        f, old, new = e[0], e[1], e[2]
        occ = e[3] if len(e) > 3 else None
        p = os.path.join(SREPO, f)
        s = open(p).read()
        c = s.count(old)
        if c == 0:
            return "edit does not apply: %s: %r" % (f, old[:60])
        if occ is None:
            if c != 1:
                return "edit ambiguous (%d matches): %s: %r" % (c, f, old[:60])
            s = s.replace(old, new)
        else:
            i = -1
            for _ in range(occ + 1):
                i = s.index(old, i + 1)
            s = s[:i] + new + s[i + len(old):]
        open(p, "w").write(s)
    return None

def main():
    sel = sys.argv[1:]
    setup()
    results = []
    for m in mod.M:
        if sel and not any(x in m["name"] for x in sel):
            continue
        t0 = time.time()
        sh("git checkout -- .", cwd=SREPO)
        err = apply(m)
        rec = {"name": m["name"], "note": m["note"], "expected": m["props"], "checks": {}}
        if err:
            rec["status"] = err
            results.append(rec); print(m["name"], err); continue
        patch = sh("git diff", cwd=SREPO).stdout
        os.makedirs(os.path.join(HERE, "patches"), exist_ok=True)
        open(os.path.join(HERE, "patches", m["name"] + ".diff"), "w").write(patch)
        t = sh("CARGO_NET_OFFLINE=true cargo test --workspace --no-fail-fast --offline 2>&1 | grep -E 'test result|error(\\[|:)' | head -5", cwd=SREPO)
        passed = "44 passed; 0 failed" in t.stdout
        rec["pinned_tests"] = "44 passed" if passed else t.stdout.strip()[:300]
        if not passed:
            rec["status"] = "mutant does not pass the pinned suite"
            results.append(rec); print(m["name"], rec["status"], rec["pinned_tests"]); continue
        for prop in m["props"]:
            r = sh("FG_DEV=1 VERIF_SEED=%s ./check %s quick" % (os.environ.get("VERIF_SEED", "1"), prop), cwd=SVERIF)
            viol = [l for l in r.stdout.splitlines() if l.startswith("VIOLATION")]
            first = [l for l in r.stdout.splitlines() if l.startswith("violation:")]
            rec["checks"][prop] = {"exit": r.returncode, "violations": len(viol), "first": (first[0][:300] if first else "")}
        rec["status"] = "ok"
        rec["wall_s"] = round(time.time() - t0, 1)
        results.append(rec)
        print(m["name"], {p: (c["exit"], c["first"][:90]) for p, c in rec["checks"].items()}, rec["wall_s"], flush=True)
    sh("git checkout -- .", cwd=SREPO)
    # merge with earlier results
    rp = os.path.join(HERE, "results.json")
    old = {r["name"]: r for r in json.load(open(rp))} if os.path.exists(rp) else {}
    for r in results:
        old[r["name"]] = r
    json.dump(list(old.values()), open(rp, "w"), indent=1)
    with open(os.path.join(HERE, "RESULTS.md"), "w") as f:
        f.write("# Sensitivity results (deliberate breaks, quick tier, scratch copy of /repo)\n\n")
        f.write("| break | what | pinned suite | checks (exit code; 1 = caught) |\n|---|---|---|---|\n")
        for r in old.values():
            cs = ", ".join("%s: %s" % (p, c["exit"]) for p, c in r.get("checks", {}).items())
            f.write("| %s | %s | %s | %s |\n" % (r["name"], r["note"], r.get("pinned_tests", r.get("status")), cs or r.get("status")))
    if os.environ.get("FG_SENS_KEEP") != "1":
        sh("git -C /repo worktree remove --force %s" % SREPO)
        shutil.rmtree(SCR, ignore_errors=True)

if __name__ == "__main__":
    main()
